#!/usr/bin/env python3
"""Regenerate MANIFEST.json from checks.json + manifest_meta.json (keeps it valid at all times)."""
import json
import os
import subprocess

ROOT = os.path.dirname(os.path.abspath(__file__))
specs = json.load(open(os.path.join(ROOT, "checks.json")))
meta = json.load(open(os.path.join(ROOT, "manifest_meta.json")))
props = [json.loads(l) for l in open(os.path.join(ROOT, "properties.jsonl"))]

hook_commits = subprocess.run(
    ["git", "-C", "/repo", "log", "--format=%h %s", "--grep=^verif-hooks"],
    stdout=subprocess.PIPE, text=True).stdout.strip().splitlines()

checks = []
for p in props:
    pid = p["id"]
    if pid not in specs or pid not in meta.get("claimed", list(specs)):
        continue  # checks.json also holds checks still under construction: only `claimed` is registered
    s = specs[pid]
    m = meta["checks"].get(pid, {})
    checks.append({
        "property_id": pid,
        "quick_cmd": f"./check {pid} --tier quick",
        "thorough_cmd": f"./check {pid} --tier thorough",
        "evidence_file": f"/verif/evidence/{pid}.json",
        "replay_cmd_template": f"./check {pid} --replay {{path}}",
        "engine": m.get("engine", "simcluster"),
        "level_claimed": {
            "category": s["level"],
            "text": m.get("level_text", s["rule"]),
            "design_ref": m.get("design_ref", f"DESIGN.md section 6 / {pid}"),
        },
        "level_note": m.get("level_note", "; ".join(s.get("assumptions", []))),
        "technique": m.get("technique", "runtime monitoring: oracle over observed executions of the real code"),
    })

claimed = {c["property_id"] for c in checks}
na = []
for p in props:
    if p["id"] not in claimed:
        na.append({"property_id": p["id"],
                   "reason": meta.get("not_applicable", {}).get(
                       p["id"], "check not built yet (planned monitor: DESIGN.md section 6); not claimed")})

manifest = {
    "version": 1,
    "setup_cmd": "cd /verif/harness && CARGO_NET_OFFLINE=true cargo build --offline 2>&1 | tail -3",
    "hooks": {
        "guard": "cargo feature `verif-hooks` on d-engine-core and d-engine-server (off by default)",
        "enable": "the harness crate /verif/harness depends on /repo/d-engine-core and /repo/d-engine-server by path with features=[\"verif-hooks\"]; every check runs `cargo build` first, so /repo's working tree is rebuilt with hooks on",
        "baseline_off_cmd": "cd /repo && cargo nextest run --workspace --no-fail-fast --test-threads 8 --offline",
        "source_commits": [l.split()[0] for l in hook_commits][::-1],
        "add_only": True,
    },
    "engines": meta["engines"],
    "checks": checks,
    "notes": meta["notes"],
    "not_applicable": na,
}
json.dump(manifest, open(os.path.join(ROOT, "MANIFEST.json"), "w"), indent=1)
print(f"MANIFEST.json: {len(checks)} checks, {len(na)} not claimed")
