//! Small shared utilities: seeded RNG, result records, hashing.

use serde::Serialize;
use serde_json::Value;
use serde_json::json;
use std::collections::BTreeMap;
use std::collections::BTreeSet;

/// SplitMix64/xorshift-style deterministic RNG (no external state, cheap to fork).
#[derive(Clone, Debug)]
pub struct Rng(pub u64);

impl Rng {
    pub fn new(seed: u64) -> Self {
        let mut r = Rng(seed ^ 0x9E37_79B9_7F4A_7C15);
        r.next();
        r
    }
    pub fn next(&mut self) -> u64 {
        self.0 = self.0.wrapping_add(0x9E37_79B9_7F4A_7C15);
        let mut z = self.0;
        z = (z ^ (z >> 30)).wrapping_mul(0xBF58_476D_1CE4_E5B9);
        z = (z ^ (z >> 27)).wrapping_mul(0x94D0_49BB_1331_11EB);
        z ^ (z >> 31)
    }
    /// uniform in [0, n)
    pub fn below(&mut self, n: u64) -> u64 {
        if n == 0 { 0 } else { self.next() % n }
    }
    /// uniform in [lo, hi]
    pub fn range(&mut self, lo: u64, hi: u64) -> u64 {
        if hi <= lo { lo } else { lo + self.below(hi - lo + 1) }
    }
    pub fn chance(&mut self, num: u64, den: u64) -> bool {
        self.below(den) < num
    }
    pub fn pick<'a, T>(&mut self, xs: &'a [T]) -> &'a T {
        &xs[self.below(xs.len() as u64) as usize]
    }
    pub fn fork(&mut self, salt: u64) -> Rng {
        Rng::new(self.next() ^ salt.wrapping_mul(0xD6E8_FEB8_6659_FD93))
    }
    pub fn shuffle<T>(&mut self, xs: &mut [T]) {
        for i in (1..xs.len()).rev() {
            let j = self.below(i as u64 + 1) as usize;
            xs.swap(i, j);
        }
    }
}

pub fn fnv64(data: &[u8]) -> u64 {
    let mut h: u64 = 0xcbf29ce484222325;
    for b in data {
        h ^= *b as u64;
        h = h.wrapping_mul(0x100000001b3);
    }
    h
}

pub fn hex(data: &[u8]) -> String {
    let mut s = String::with_capacity(data.len() * 2);
    for b in data {
        s.push_str(&format!("{b:02x}"));
    }
    s
}

pub fn show_bytes(data: &[u8]) -> String {
    if data.iter().all(|b| b.is_ascii_graphic() || *b == b' ') && !data.is_empty() {
        String::from_utf8_lossy(data).to_string()
    } else {
        format!("0x{}", hex(data))
    }
}

/// One violation found by an oracle.
#[derive(Clone, Debug, Serialize)]
pub struct Violation {
    pub property: String,
    /// mechanism-level signature used for known-finding matching
    pub signature: String,
    pub detail: Value,
    /// scenario description able to re-run it
    pub scenario: Value,
}

/// What a worker reports back to the driver for one shard of work.
#[derive(Default, Debug, Serialize)]
pub struct ShardReport {
    pub check: String,
    pub evaluations: u64,
    pub nontrivial: u64,
    /// distinct signatures of non-trivial evaluations (hashes), merged by the driver
    pub signatures: BTreeSet<u64>,
    pub samples: Vec<Value>,
    pub counters: BTreeMap<String, u64>,
    pub violations: Vec<Violation>,
    pub inconclusive: Vec<String>,
    pub exhaustive: bool,
    pub notes: Vec<String>,
}

impl ShardReport {
    pub fn new(check: &str) -> Self {
        ShardReport {
            check: check.to_string(),
            ..Default::default()
        }
    }
    pub fn count(&mut self, k: &str, n: u64) {
        *self.counters.entry(k.to_string()).or_insert(0) += n;
    }
    pub fn max(&mut self, k: &str, n: u64) {
        let e = self.counters.entry(k.to_string()).or_insert(0);
        if n > *e {
            *e = n;
        }
    }
    pub fn eval(&mut self, nontrivial: bool, signature: u64) {
        self.evaluations += 1;
        if nontrivial {
            self.nontrivial += 1;
            self.signatures.insert(signature);
        }
    }
    pub fn sample(&mut self, v: Value) {
        if self.samples.len() < 4 {
            self.samples.push(v);
        }
    }
    pub fn violation(&mut self, property: &str, signature: &str, detail: Value, scenario: Value) {
        // keep at most a handful of witnesses per signature to bound output size
        let n = self
            .violations
            .iter()
            .filter(|v| v.property == property && v.signature == signature)
            .count();
        self.count(&format!("violations.{property}.{signature}"), 1);
        if n < 3 {
            self.violations.push(Violation {
                property: property.to_string(),
                signature: signature.to_string(),
                detail,
                scenario,
            });
        }
    }
    pub fn to_json(&self) -> Value {
        json!({
            "check": self.check,
            "evaluations": self.evaluations,
            "nontrivial": self.nontrivial,
            "signatures": self.signatures.iter().collect::<Vec<_>>(),
            "samples": self.samples,
            "counters": self.counters,
            "violations": self.violations,
            "inconclusive": self.inconclusive,
            "exhaustive": self.exhaustive,
            "notes": self.notes,
        })
    }
}

/// Parsed worker arguments (`key=value` pairs after the check name).
#[derive(Clone, Debug, Default)]
pub struct Args {
    pub kv: BTreeMap<String, String>,
}

impl Args {
    pub fn parse(items: &[String]) -> Self {
        let mut kv = BTreeMap::new();
        for it in items {
            if let Some((k, v)) = it.split_once('=') {
                kv.insert(k.trim_start_matches("--").to_string(), v.to_string());
            } else {
                kv.insert(it.trim_start_matches("--").to_string(), "1".to_string());
            }
        }
        Args { kv }
    }
    pub fn u64(&self, k: &str, d: u64) -> u64 {
        self.kv.get(k).and_then(|v| v.parse().ok()).unwrap_or(d)
    }
    pub fn str(&self, k: &str, d: &str) -> String {
        self.kv.get(k).cloned().unwrap_or_else(|| d.to_string())
    }
    pub fn has(&self, k: &str) -> bool {
        self.kv.contains_key(k)
    }
}
