pub mod checks;
pub mod lin;
pub mod comp;
pub mod model;
pub mod sim;
pub mod util;
