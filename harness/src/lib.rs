pub mod model;
pub mod sim;
pub mod util;
