pub mod checks;
pub mod comp;
pub mod model;
pub mod sim;
pub mod util;
