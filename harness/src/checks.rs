//! Check dispatch: maps a check name to the code that produces a shard report.

use std::path::Path;
use std::time::Instant;

use serde_json::json;

use crate::sim::scenario::plan_for;
use crate::sim::scenario::run_plan;
use crate::util::Args;
use crate::util::Rng;
use crate::util::ShardReport;

pub fn run(check: &str, args: &Args, scratch: &Path) -> ShardReport {
    match check {
        "sim" => run_sim(args, scratch),
        "simone" => run_sim_one(args, scratch),
        "c37" | "c35" | "c13" | "c36" | "c17" => run_directed(check, args, scratch),
        "config" => crate::comp::config::run(args, scratch),
        "kv" => crate::comp::kv::run(args, scratch),
        "buflog" => crate::comp::buflog::run(args, scratch),
        "storage" => crate::comp::storage::run(args, scratch),
        "smcrash" => crate::comp::smcrash::run(args, scratch),
        "replconv" => crate::comp::replconv::run(args, scratch),
        "metacrash" => crate::comp::metacrash::run(args, scratch),
        "scanrace" => crate::comp::scanrace::run(args, scratch),
        "ttl" => crate::comp::ttl::run(args, scratch),
        other => {
            let mut r = ShardReport::new(other);
            r.inconclusive.push(format!("unknown check {other}"));
            r
        }
    }
}

/// Simulated-cluster runs. args: family, seed, runs, shard, props (comma list), need
/// (counter:min,...) budget_s
fn run_sim(args: &Args, scratch: &Path) -> ShardReport {
    let family = args.str("family", "election");
    let seed = args.u64("seed", 1);
    let runs = args.u64("runs", 10);
    let shard = args.u64("shard", 0);
    let budget_s = args.u64("budget_s", 3600);
    let props: Vec<String> = args.str("props", "").split(',').filter(|s| !s.is_empty()).map(|s| s.to_string()).collect();
    let need: Vec<(String, u64)> = args
        .str("need", "")
        .split(',')
        .filter_map(|kv| kv.split_once(':').map(|(k, v)| (k.to_string(), v.parse().unwrap_or(1))))
        .collect();
    let mut rep = ShardReport::new(&format!("sim:{family}"));
    let mut seeder = Rng::new(seed.wrapping_mul(0x1000_0001).wrapping_add(shard.wrapping_mul(7919)));
    let start = Instant::now();
    for j in 0..runs {
        if start.elapsed().as_secs() >= budget_s {
            rep.notes.push(format!("time budget reached after {j} runs"));
            break;
        }
        let run_seed = seeder.next() >> 1;
        let plan = plan_for(&family, run_seed);
        let out = run_plan(&plan, scratch);
        if let Some(why) = &out.inconclusive {
            rep.inconclusive.push(format!("seed {run_seed}: {why}"));
            continue;
        }
        let nontrivial = need.iter().all(|(k, v)| out.counters.get(k).cloned().unwrap_or(0) >= *v);
        rep.eval(nontrivial, out.signature);
        for (k, v) in &out.counters {
            rep.count(k, *v);
        }
        rep.count("virtual_ms", out.virtual_ms);
        rep.count("events", out.events as u64);
        if rep.samples.len() < 3 && nontrivial {
            rep.sample(json!({"plan": plan.describe(), "counters": out.counters, "virtual_ms": out.virtual_ms, "final": out.extra.get("final_reads")}));
        }
        for f in &out.findings {
            if props.is_empty() || props.iter().any(|p| p == f.property) {
                rep.violation(
                    f.property,
                    &f.signature,
                    json!({"t": f.t, "detail": f.detail, "trace": if rep.violations.iter().filter(|v| v.property == f.property && v.signature == f.signature).count() == 0 { json!(out.trace_around(f.t, 2500, std::env::var("DVERIF_TRACE_MAX").ok().and_then(|v| v.parse().ok()).unwrap_or(900))) } else { json!([]) }}),
                    plan.describe(),
                );
            } else {
                rep.count(&format!("other_findings.{}.{}", f.property, f.signature), 1);
            }
        }
    }
    rep
}

/// Re-run exactly one plan (replay / investigation): prints findings and, for `grep=<substr>`,
/// the matching recorded events around the first finding of property `props`.
fn run_sim_one(args: &Args, scratch: &Path) -> ShardReport {
    let family = args.str("family", "election");
    let seed = args.u64("seed", 1);
    let props = args.str("props", "");
    let window = args.u64("window", 800);
    let plan = plan_for(&family, seed);
    if args.has("dump") {
        // SAFETY: single-threaded at this point
        unsafe { std::env::set_var("DVERIF_KEEP_EVENTS", "1") };
    }
    let out = run_plan(&plan, scratch);
    let mut rep = ShardReport::new("simone");
    if args.has("dump") {
        let pats: Vec<String> = args.str("grep", "").split('|').filter(|s| !s.is_empty()).map(|s| s.to_string()).collect();
        for e in out.trace_around(u64::MAX / 2, u64::MAX / 2, usize::MAX) {
            let s = e.to_string();
            if pats.is_empty() || pats.iter().any(|p| s.contains(p.as_str())) {
                eprintln!("{s}");
            }
        }
    }
    rep.eval(true, out.signature);
    eprintln!("plan: {}", plan.describe());
    eprintln!("counters: {:?}", out.counters);
    for f in &out.findings {
        eprintln!("FINDING t={} {} {} {}", f.t, f.property, f.signature, f.detail);
    }
    if let Some(f) = out.findings.iter().find(|f| props.is_empty() || props == f.property) {
        let pats: Vec<String> = args.str("grep", "").split('|').filter(|s| !s.is_empty()).map(|s| s.to_string()).collect();
        for e in out.trace_around(f.t, window, 5000) {
            let s = e.to_string();
            if pats.is_empty() || pats.iter().any(|p| s.contains(p.as_str())) {
                eprintln!("{s}");
            }
        }
        rep.violation(f.property, &f.signature, json!({"t": f.t, "detail": f.detail}), plan.describe());
    }
    rep
}

pub fn run_directed(which: &str, args: &Args, scratch: &Path) -> ShardReport {
    let seed = args.u64("seed", 1);
    let shard = args.u64("shard", 0);
    let runs = args.u64("runs", 100);
    let mut rep = ShardReport::new(which);
    let s = seed.wrapping_mul(1_000_003).wrapping_add(shard);
    match which {
        "c37" => crate::sim::directed::run_c37(s, runs, scratch, &mut rep),
        "c35" => crate::sim::directed::run_c35(s, runs, scratch, &mut rep),
        "c17" => crate::sim::snapxfer::run_c17(s, runs, scratch, &mut rep, args.u64("budget_s", 600)),
        "c36" => crate::sim::merge::run_c36(s, runs, scratch, &mut rep, args.u64("budget_s", 600)),
        "c13" => {
            // 6 configurations; shard i runs configuration (i % 6) + 1
            crate::sim::directed::run_c13(s, scratch, &mut rep, Some(shard % 6 + 1));
        }
        _ => rep.inconclusive.push("unknown directed check".into()),
    }
    rep
}
