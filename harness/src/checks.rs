//! Check dispatch: maps a check name to the code that produces a shard report.

use std::path::Path;
use std::time::Instant;

use serde_json::json;

use crate::sim::scenario::plan_for;
use crate::sim::scenario::run_plan;
use crate::util::Args;
use crate::util::Rng;
use crate::util::ShardReport;

pub fn run(check: &str, args: &Args, scratch: &Path) -> ShardReport {
    match check {
        "sim" => run_sim(args, scratch),
        "config" => crate::comp::config::run(args, scratch),
        "kv" => crate::comp::kv::run(args, scratch),
        "buflog" => crate::comp::buflog::run(args, scratch),
        other => {
            let mut r = ShardReport::new(other);
            r.inconclusive.push(format!("unknown check {other}"));
            r
        }
    }
}

/// Simulated-cluster runs. args: family, seed, runs, shard, props (comma list), need
/// (counter:min,...) budget_s
fn run_sim(args: &Args, scratch: &Path) -> ShardReport {
    let family = args.str("family", "election");
    let seed = args.u64("seed", 1);
    let runs = args.u64("runs", 10);
    let shard = args.u64("shard", 0);
    let budget_s = args.u64("budget_s", 3600);
    let props: Vec<String> = args.str("props", "").split(',').filter(|s| !s.is_empty()).map(|s| s.to_string()).collect();
    let need: Vec<(String, u64)> = args
        .str("need", "")
        .split(',')
        .filter_map(|kv| kv.split_once(':').map(|(k, v)| (k.to_string(), v.parse().unwrap_or(1))))
        .collect();
    let mut rep = ShardReport::new(&format!("sim:{family}"));
    let mut seeder = Rng::new(seed.wrapping_mul(0x1000_0001).wrapping_add(shard.wrapping_mul(7919)));
    let start = Instant::now();
    for j in 0..runs {
        if start.elapsed().as_secs() >= budget_s {
            rep.notes.push(format!("time budget reached after {j} runs"));
            break;
        }
        let run_seed = seeder.next() >> 1;
        let plan = plan_for(&family, run_seed);
        let out = run_plan(&plan, scratch);
        if let Some(why) = &out.inconclusive {
            rep.inconclusive.push(format!("seed {run_seed}: {why}"));
            continue;
        }
        let nontrivial = need.iter().all(|(k, v)| out.counters.get(k).cloned().unwrap_or(0) >= *v);
        rep.eval(nontrivial, out.signature);
        for (k, v) in &out.counters {
            rep.count(k, *v);
        }
        rep.count("virtual_ms", out.virtual_ms);
        rep.count("events", out.events as u64);
        if rep.samples.len() < 3 && nontrivial {
            rep.sample(json!({"plan": plan.describe(), "counters": out.counters, "virtual_ms": out.virtual_ms, "final": out.extra.get("final_reads")}));
        }
        for f in &out.findings {
            if props.is_empty() || props.iter().any(|p| p == f.property) {
                rep.violation(
                    f.property,
                    &f.signature,
                    json!({"t": f.t, "detail": f.detail, "trace": if rep.violations.iter().filter(|v| v.property == f.property && v.signature == f.signature).count() == 0 { json!(out.trace_tail) } else { json!([]) }}),
                    plan.describe(),
                );
            } else {
                rep.count(&format!("other_findings.{}.{}", f.property, f.signature), 1);
            }
        }
    }
    rep
}
