//! End-of-run history oracles: linearizability (C11) and visibility of acknowledged writes (C10).

use std::collections::BTreeMap;

use serde_json::json;

use super::monitor::Finding;
use super::monitor::Online;
use super::record::ClientOp;
use super::record::ClientResult;
use super::record::op_json;
use super::record::result_json;
use crate::lin::LEntry;
use crate::lin::LOp;
use crate::lin::LRes;
use crate::lin::Verdict;
use crate::lin::check_key;

pub struct HistoryStats {
    pub keys_checked: u64,
    pub ops_checked: u64,
    pub lin_inconclusive: u64,
    pub final_reads: u64,
}

fn entry_for(op: u64, what: &ClientOp, res: Option<&ClientResult>, call: u64, ret: Option<u64>, key: &[u8]) -> Option<LEntry> {
    let (lop, lres, ret) = match (what, res) {
        (ClientOp::Put { key: k, value, .. }, r) if k == key => {
            let (lr, rt) = match r {
                Some(ClientResult::WriteOk { .. }) => (LRes::Ok, ret),
                Some(ClientResult::Rejected { .. }) => return None,
                _ => (LRes::Unknown, None),
            };
            (LOp::Put(value.clone()), lr, rt)
        }
        (ClientOp::Del { key: k }, r) if k == key => {
            let (lr, rt) = match r {
                Some(ClientResult::WriteOk { .. }) => (LRes::Ok, ret),
                Some(ClientResult::Rejected { .. }) => return None,
                _ => (LRes::Unknown, None),
            };
            (LOp::Del, lr, rt)
        }
        (ClientOp::Cas { key: k, expected, new }, r) if k == key => {
            let (lr, rt) = match r {
                Some(ClientResult::WriteOk { succeeded }) => (LRes::Cas(*succeeded), ret),
                Some(ClientResult::Rejected { .. }) => return None,
                _ => (LRes::Unknown, None),
            };
            (LOp::Cas { exp: expected.clone(), new: new.clone() }, lr, rt)
        }
        (ClientOp::Read { keys, policy, .. }, Some(ClientResult::ReadOk { values })) => {
            // only reads requested (and, on the leader path, served) as linearizable
            if *policy != Some("linearizable") {
                return None;
            }
            let pos = keys.iter().position(|k| k == key)?;
            (LOp::Read, LRes::Read(values.get(pos).cloned().flatten()), ret)
        }
        _ => return None,
    };
    Some(LEntry { id: op, op: lop, call, ret, res: lres })
}

/// Build per-key histories from the monitor's op tables and check them.
pub fn analyze(on: &Online, budget: u64) -> (Vec<Finding>, HistoryStats) {
    let mut findings = Vec::new();
    let mut stats = HistoryStats { keys_checked: 0, ops_checked: 0, lin_inconclusive: 0, final_reads: 0 };
    let mut keys: BTreeMap<Vec<u8>, ()> = BTreeMap::new();
    for (_, (_, _, what, _)) in on.ops.iter() {
        match what {
            ClientOp::Put { key, .. } | ClientOp::Del { key } | ClientOp::Cas { key, .. } => {
                keys.insert(key.clone(), ());
            }
            ClientOp::Read { keys: ks, .. } => {
                for k in ks {
                    keys.insert(k.clone(), ());
                }
            }
            _ => {}
        }
    }
    let t_end = on.seq;
    for key in keys.keys() {
        let mut h: Vec<LEntry> = Vec::new();
        for (op, (_c, _n, what, _t)) in on.ops.iter() {
            let call = on.call_seq.get(op).cloned().unwrap_or(0);
            let ret = on.ret_seq.get(op).cloned();
            let res = on.results.get(op).map(|(r, _)| r);
            if let Some(e) = entry_for(*op, what, res, call, ret, key) {
                h.push(e);
            }
        }
        if h.is_empty() {
            continue;
        }
        stats.keys_checked += 1;
        stats.ops_checked += h.len() as u64;

        // ---- C10: acknowledged writes visible in later linearizable reads ----
        // Sound sufficient condition: a read R (completed) returns value V; some acknowledged
        // state-changing write W returned before R was invoked; and V's writer X returned
        // before W was invoked (or V is "absent" with no delete/failed-put that could follow W).
        let writes: Vec<&LEntry> = h.iter().filter(|e| !matches!(e.op, LOp::Read)).collect();
        for r in h.iter().filter(|e| matches!(e.op, LOp::Read)) {
            let LRes::Read(v) = &r.res else { continue };
            if on.read_phase_start.is_some_and(|s| r.call >= s) {
                stats.final_reads += 1;
            }
            // every write that could have produced V (or absence) must be definitely before W:
            // compute once per read the latest return among V's producers
            let producers: Vec<&&LEntry> = writes
                .iter()
                .filter(|x| match (&x.op, v) {
                    (LOp::Put(val), Some(vv)) => val == vv,
                    (LOp::Cas { new, .. }, Some(vv)) => new == vv && !matches!(x.res, LRes::Cas(false)),
                    (LOp::Del, None) => true,
                    _ => false,
                })
                .collect();
            let initial_absent = v.is_none();
            if producers.is_empty() && !initial_absent {
                continue;
            }
            // a producer that never returned may take effect at any later time: nothing to conclude
            let Some(max_prod_ret) = producers.iter().map(|x| x.ret).try_fold(0u64, |m, r| r.map(|r| m.max(r))) else { continue };
            // candidate later writes W: acked put / delete / successful CAS of a different value
            // that was invoked after every producer returned and returned before R was invoked
            for w in writes.iter().filter(|w| w.call > max_prod_ret && w.ret.is_some_and(|rt| rt < r.call)) {
                let w_val: Option<Option<Vec<u8>>> = match (&w.op, &w.res) {
                    (LOp::Put(val), LRes::Ok) => Some(Some(val.clone())),
                    (LOp::Cas { new, .. }, LRes::Cas(true)) => Some(Some(new.clone())),
                    (LOp::Del, LRes::Ok) => Some(None),
                    _ => None,
                };
                let Some(w_val) = w_val else { continue };
                if &w_val == v || producers.iter().any(|x| x.id == w.id) {
                    continue;
                }
                let final_phase = on.read_phase_start.is_some_and(|s| r.call >= s);
                findings.push(Finding {
                    property: "C10",
                    signature: if final_phase { "acknowledged-write-missing-after-heal".into() } else { "acknowledged-write-missing-in-later-read".into() },
                    detail: json!({
                        "key": crate::util::show_bytes(key),
                        "read_op": r.id, "read_returned": v.as_ref().map(|b| crate::util::show_bytes(b)),
                        "acknowledged_write_op": w.id, "acknowledged_write": on.ops.get(&w.id).map(|o| op_json(&o.2)),
                        "write_result": on.results.get(&w.id).map(|x| result_json(&x.0)),
                        "value_producers": producers.iter().map(|x| x.id).collect::<Vec<_>>(),
                    }),
                    t: on.results.get(&r.id).map(|x| x.1).unwrap_or(t_end),
                });
                break;
            }
        }

        // ---- C11: linearizability of the whole per-key history ----
        let (v, stuck) = check_key(&h, None, budget);
        match v {
            Verdict::Linearizable => {}
            Verdict::Inconclusive => stats.lin_inconclusive += 1,
            Verdict::NotLinearizable => {
                let ops_json: Vec<_> = stuck
                    .iter()
                    .take(12)
                    .map(|id| {
                        json!({"op": id,
                            "what": on.ops.get(id).map(|o| op_json(&o.2)), "node": on.ops.get(id).map(|o| o.1),
                            "result": on.results.get(id).map(|x| result_json(&x.0)),
                            "call": on.call_seq.get(id), "ret": on.ret_seq.get(id)})
                    })
                    .collect();
                let t = stuck.iter().filter_map(|id| on.results.get(id).map(|x| x.1)).min().unwrap_or(t_end);
                findings.push(Finding {
                    property: "C11",
                    signature: "history-not-linearizable".into(),
                    detail: json!({"key": crate::util::show_bytes(key), "ops_in_key_history": h.len(), "frontier_ops_that_cannot_be_ordered": ops_json}),
                    t,
                });
            }
        }
    }
    (findings, stats)
}
