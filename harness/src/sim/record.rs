//! Event recorder shared by the simulated network, the hook sink, clients and the SM wrapper.
//! Single-threaded runtime: a std Mutex is only there to satisfy Send + Sync.

use std::sync::Arc;
use std::sync::Mutex;

use d_engine_core::Command;
use serde_json::Value;
use serde_json::json;

use crate::model::show_cmd;
use crate::util::show_bytes;

#[derive(Clone, Debug, PartialEq)]
pub enum AeKind {
    Success,
    Conflict,
    HigherTerm,
    Error,
}

#[derive(Clone, Debug)]
pub enum ClientOp {
    Put { key: Vec<u8>, value: Vec<u8>, ttl: Option<u64> },
    Del { key: Vec<u8> },
    Cas { key: Vec<u8>, expected: Option<Vec<u8>>, new: Vec<u8> },
    /// policy: None = server default; path: "cmd" | "embedded" | "actor"
    Read { keys: Vec<Vec<u8>>, policy: Option<&'static str>, path: &'static str },
    Scan { prefix: Vec<u8> },
    Join { node: u32 },
}

#[derive(Clone, Debug, PartialEq)]
pub enum ClientResult {
    /// write acknowledged; `succeeded` is the CAS flag (true for put/delete)
    WriteOk { succeeded: bool },
    /// read answered with values aligned to keys
    ReadOk { values: Vec<Option<Vec<u8>>> },
    ScanOk { entries: Vec<(Vec<u8>, Vec<u8>)>, revision: u64 },
    JoinOk,
    /// definite rejection: the node states the request was not and will not be processed
    Rejected { why: String },
    /// outcome unknown (timeout at client, ProposeFailed, TermOutdated, channel closed ...)
    Indeterminate { why: String },
    /// reply channel dropped without any reply
    Dropped,
}

#[derive(Clone, Debug)]
pub enum Ev {
    // ---- hook events (mirrors d_engine_core::verif::VerifEvent) ----
    RoleChange { node: u32, from: i32, to: i32, term: u64 },
    Term { node: u32, old: u64, new: u64 },
    Vote { node: u32, term: u64, candidate: u32, committed: bool, current_term: u64 },
    VoteReset { node: u32, term: u64 },
    Commit { node: u32, leader: bool, term: u64, old: u64, new: u64 },
    ReadServed { node: u32, path: &'static str, policy: &'static str, term: u64 },
    LeaderNotify { node: u32, leader: Option<u32>, term: u64 },
    // ---- wire events ----
    VoteReq { from: u32, to: u32, term: u64, last_index: u64, last_term: u64 },
    /// the voter's reply as it leaves the voter (whether or not it reaches the candidate)
    VoteReply { voter: u32, voter_inc: u32, candidate: u32, req_term: u64, granted: bool, reply_term: u64 },
    VoteOutcome { candidate: u32, term: u64, granted_by: Vec<u32>, peers: Vec<u32> },
    AeSend { id: u64, from: u32, to: u32, term: u64, prev_index: u64, prev_term: u64, first: u64, n: u64, commit: u64, contiguous: bool },
    AeDeliver { id: u64, to: u32 },
    /// reply as it leaves the follower
    AeReply { id: u64, rid: u64, follower: u32, leader: u32, kind: AeKind, term: u64, match_index: u64, truthful: Option<bool> },
    AeReplyDeliver { id: u64, rid: u64, leader: u32 },
    SnapshotPush { from: u32, to: u32, last_index: u64, last_term: u64, ok: bool },
    JoinReq { from: u32, to: u32 },
    JoinReply { node: u32, leader: u32, success: bool },
    // ---- node lifecycle / faults ----
    /// `applied`: the index the state machine reports as applied when the node starts (recovered)
    Start { node: u32, inc: u32, learner: bool, applied: u64 },
    Crash { node: u32, inc: u32 },
    Stop { node: u32, inc: u32 },
    NodeExit { node: u32, inc: u32, fatal: bool, msg: String },
    /// the node entered its Raft loop (a joining learner does so only after its join succeeded)
    LoopStart { node: u32, inc: u32 },
    Fault { desc: String },
    Phase { name: String },
    // ---- state machine wrapper ----
    Apply { node: u32, inc: u32, index: u64, term: u64, cmd: Command, ok: bool },
    SnapshotInstall { node: u32, inc: u32, last_index: u64, last_term: u64 },
    SnapshotGenerate { node: u32, inc: u32, last_index: u64, last_term: u64, sm_last_applied: u64 },
    Purge { node: u32, inc: u32, upto: u64, commit_known: u64 },
    // ---- clients ----
    Invoke { op: u64, client: u32, node: u32, what: ClientOp },
    Return { op: u64, result: ClientResult },
    // ---- watch streams (C24) ----
    WatchRegister { wid: u64, node: u32, inc: u32, key: Vec<u8>, is_prefix: bool, applied_at_registration: u64 },
    /// kind: put | delete | canceled | progress
    WatchRecv { wid: u64, kind: &'static str, key: Vec<u8>, value: Vec<u8>, revision: u64 },
    /// the consumer stopped reading: dropped (it unregistered itself) | closed (stream ended)
    WatchEnd { wid: u64, why: &'static str },
    // ---- membership watch ----
    Membership { node: u32, voters: Vec<u32>, learners: Vec<u32>, index: u64 },
}

#[derive(Clone, Debug)]
pub struct Rec {
    pub t: u64,
    pub ev: Ev,
}

#[derive(Default)]
pub struct RecorderInner {
    pub events: Vec<Rec>,
    pub now: u64,
}

#[derive(Clone)]
pub struct Recorder(pub Arc<Mutex<RecorderInner>>, pub Arc<Mutex<super::monitor::Online>>);

impl Default for Recorder {
    fn default() -> Self {
        Recorder(
            Arc::new(Mutex::new(RecorderInner::default())),
            Arc::new(Mutex::new(super::monitor::Online::new())),
        )
    }
}

impl Recorder {
    pub fn new() -> Self {
        Self::default()
    }
    pub fn push(&self, t: u64, ev: Ev) {
        // monitors first (they read live state "as of this event"), then the log
        self.1.lock().unwrap().on_event(t, &ev);
        let mut g = self.0.lock().unwrap();
        if t > g.now {
            g.now = t;
        }
        g.events.push(Rec { t, ev });
    }
    pub fn online(&self) -> std::sync::MutexGuard<'_, super::monitor::Online> {
        self.1.lock().unwrap()
    }
    pub fn len(&self) -> usize {
        self.0.lock().unwrap().events.len()
    }
    pub fn snapshot(&self) -> Vec<Rec> {
        self.0.lock().unwrap().events.clone()
    }
    pub fn take(&self) -> Vec<Rec> {
        std::mem::take(&mut self.0.lock().unwrap().events)
    }
}

fn sb(v: &[u8]) -> String {
    show_bytes(v)
}

pub fn op_json(op: &ClientOp) -> Value {
    match op {
        ClientOp::Put { key, value, ttl } => json!({"put": sb(key), "v": sb(value), "ttl": ttl}),
        ClientOp::Del { key } => json!({"del": sb(key)}),
        ClientOp::Cas { key, expected, new } => {
            json!({"cas": sb(key), "exp": expected.as_ref().map(|e| sb(e)), "new": sb(new)})
        }
        ClientOp::Read { keys, policy, path } => {
            json!({"read": keys.iter().map(|k| sb(k)).collect::<Vec<_>>(), "policy": policy, "path": path})
        }
        ClientOp::Scan { prefix } => json!({"scan": sb(prefix)}),
        ClientOp::Join { node } => json!({"join": node}),
    }
}

pub fn result_json(r: &ClientResult) -> Value {
    match r {
        ClientResult::WriteOk { succeeded } => json!({"write_ok": succeeded}),
        ClientResult::ReadOk { values } => {
            json!({"read_ok": values.iter().map(|v| v.as_ref().map(|v| sb(v))).collect::<Vec<_>>()})
        }
        ClientResult::ScanOk { entries, revision } => {
            json!({"scan_ok": entries.iter().map(|(k, v)| json!([sb(k), sb(v)])).collect::<Vec<_>>(), "revision": revision})
        }
        ClientResult::JoinOk => json!("join_ok"),
        ClientResult::Rejected { why } => json!({"rejected": why}),
        ClientResult::Indeterminate { why } => json!({"indeterminate": why}),
        ClientResult::Dropped => json!("dropped_without_reply"),
    }
}

pub fn ev_json(r: &Rec) -> Value {
    let e = match &r.ev {
        Ev::RoleChange { node, from, to, term } => json!({"role": node, "from": from, "to": to, "term": term}),
        Ev::Term { node, old, new } => json!({"term_change": node, "old": old, "new": new}),
        Ev::Vote { node, term, candidate, committed, current_term } => {
            json!({"vote_set": node, "term": term, "for": candidate, "committed": committed, "cur": current_term})
        }
        Ev::VoteReset { node, term } => json!({"vote_reset": node, "term": term}),
        Ev::Commit { node, leader, term, old, new } => {
            json!({"commit": node, "leader": leader, "term": term, "old": old, "new": new})
        }
        Ev::ReadServed { node, path, policy, term } => {
            json!({"read_served": node, "path": path, "policy": policy, "term": term})
        }
        Ev::LeaderNotify { node, leader, term } => json!({"leader_notify": node, "leader": leader, "term": term}),
        Ev::VoteReq { from, to, term, last_index, last_term } => {
            json!({"vote_req": [from, to], "term": term, "last": [last_index, last_term]})
        }
        Ev::VoteReply { voter, voter_inc, candidate, req_term, granted, reply_term } => {
            json!({"vote_reply": voter, "inc": voter_inc, "to": candidate, "req_term": req_term, "granted": granted, "reply_term": reply_term})
        }
        Ev::VoteOutcome { candidate, term, granted_by, peers } => {
            json!({"vote_outcome": candidate, "term": term, "granted_by": granted_by, "peers": peers})
        }
        Ev::AeSend { id, from, to, term, prev_index, prev_term, first, n, commit, contiguous } => {
            json!({"ae": id, "from": from, "to": to, "term": term, "prev": [prev_index, prev_term], "first": first, "n": n, "commit": commit, "contig": contiguous})
        }
        Ev::AeDeliver { id, to } => json!({"ae_deliver": id, "to": to}),
        Ev::AeReply { id, rid, follower, leader, kind, term, match_index, truthful } => {
            json!({"ae_reply": id, "rid": rid, "follower": follower, "leader": leader, "kind": format!("{kind:?}"), "term": term, "match": match_index, "truthful": truthful})
        }
        Ev::AeReplyDeliver { id, rid, leader } => json!({"ae_reply_deliver": id, "rid": rid, "leader": leader}),
        Ev::SnapshotPush { from, to, last_index, last_term, ok } => {
            json!({"snapshot_push": [from, to], "last": [last_index, last_term], "ok": ok})
        }
        Ev::JoinReq { from, to } => json!({"join_req": [from, to]}),
        Ev::JoinReply { node, leader, success } => json!({"join_reply": node, "leader": leader, "success": success}),
        Ev::Start { node, inc, learner, applied } => json!({"start": node, "inc": inc, "learner": learner, "recovered_applied": applied}),
        Ev::Crash { node, inc } => json!({"crash": node, "inc": inc}),
        Ev::Stop { node, inc } => json!({"stop": node, "inc": inc}),
        Ev::NodeExit { node, inc, fatal, msg } => json!({"node_exit": node, "inc": inc, "fatal": fatal, "msg": msg}),
        Ev::LoopStart { node, inc } => json!({"loop_start": node, "inc": inc}),
        Ev::Fault { desc } => json!({"fault": desc}),
        Ev::Phase { name } => json!({"phase": name}),
        Ev::Apply { node, inc, index, term, cmd, ok } => {
            json!({"apply": node, "inc": inc, "i": index, "t": term, "cmd": show_cmd(cmd), "ok": ok})
        }
        Ev::SnapshotInstall { node, inc, last_index, last_term } => {
            json!({"snapshot_install": node, "inc": inc, "last": [last_index, last_term]})
        }
        Ev::SnapshotGenerate { node, inc, last_index, last_term, sm_last_applied } => {
            json!({"snapshot_generate": node, "inc": inc, "last": [last_index, last_term], "sm_last_applied": sm_last_applied})
        }
        Ev::Purge { node, inc, upto, commit_known } => json!({"purge": node, "inc": inc, "upto": upto, "commit": commit_known}),
        Ev::Invoke { op, client, node, what } => json!({"invoke": op, "client": client, "node": node, "op": op_json(what)}),
        Ev::Return { op, result } => json!({"return": op, "result": result_json(result)}),
        Ev::WatchRegister { wid, node, inc, key, is_prefix, applied_at_registration } => {
            json!({"watch_register": wid, "node": node, "inc": inc, "key": sb(key), "prefix": is_prefix, "applied": applied_at_registration})
        }
        Ev::WatchRecv { wid, kind, key, value, revision } => json!({"watch_recv": wid, "kind": kind, "key": sb(key), "v": sb(value), "rev": revision}),
        Ev::WatchEnd { wid, why } => json!({"watch_end": wid, "why": why}),
        Ev::Membership { node, voters, learners, index } => {
            json!({"membership": node, "voters": voters, "learners": learners, "index": index})
        }
    };
    json!({"t": r.t, "e": e})
}
