//! C24 monitor: per watcher, the delivered stream against the apply log of the node it watches.
//!
//! Expected stream of a watcher registered on node n (incarnation i) with key/prefix K when the
//! node's state machine had applied index R0: for every entry applied by (n, i) with index > R0,
//! in apply order, whose key matches K: Insert -> put(value), Delete -> delete, CAS -> put(new)
//! iff the CAS succeeded, nothing otherwise. Events with revision <= R0 may or may not arrive
//! (their broadcast may have been in flight at registration) but must still be genuine.
//! Verdict per watcher, at the end of the run:
//!   * every delivered data event is genuine (index applied on that node, key matches K, type and
//!     value as applied, a failed CAS never shows up), revisions strictly increase;
//!   * between the first required revision and the last delivered one no expected event is
//!     missing, unless the stream was ended by CANCELED;
//!   * nothing after CANCELED;
//!   * a watcher that was still being read at the end (never cancelled, never dropped, node up)
//!     has received everything expected up to the node's applied index (after quiescence).

use std::collections::BTreeMap;
use std::collections::HashMap;

use d_engine_core::Command;
use serde_json::json;

use super::monitor::Finding;
use super::record::Ev;
use crate::util::show_bytes;

#[derive(Clone, Debug)]
struct Watcher {
    node: u32,
    inc: u32,
    key: Vec<u8>,
    is_prefix: bool,
    r0: u64,
    registered_at: u64,
    /// (t, kind, key, value, revision)
    got: Vec<(u64, &'static str, Vec<u8>, Vec<u8>, u64)>,
    ended: Option<&'static str>,
    ended_at: u64,
}

#[derive(Default)]
pub struct WatchMon {
    watchers: BTreeMap<u64, Watcher>,
    /// (node, inc) -> index -> (cmd, ok)
    applied: HashMap<(u32, u32), BTreeMap<u64, (Command, bool)>>,
    /// nodes that went down: (node, inc) -> time
    down: HashMap<(u32, u32), u64>,
    pub findings: Vec<Finding>,
    pub events_checked: u64,
    pub watchers_checked: u64,
    pub cancels_seen: u64,
    pub gaps_tolerated_by_cancel: u64,
}

fn matches(key: &[u8], is_prefix: bool, k: &[u8]) -> bool {
    if is_prefix { k.starts_with(key) } else { k == key }
}

/// what a watcher should see for one applied entry
fn expected_event(cmd: &Command, ok: bool) -> Option<(&'static str, Vec<u8>, Vec<u8>)> {
    match cmd {
        Command::Insert { key, value, .. } => Some(("put", key.to_vec(), value.to_vec())),
        Command::Delete { key } => Some(("delete", key.to_vec(), vec![])),
        Command::CompareAndSwap { key, value, .. } if ok => Some(("put", key.to_vec(), value.to_vec())),
        _ => None,
    }
}

impl WatchMon {
    pub fn on_event(&mut self, t: u64, ev: &Ev) {
        match ev {
            Ev::Apply { node, inc, index, cmd, ok, .. } => {
                self.applied.entry((*node, *inc)).or_default().entry(*index).or_insert((cmd.clone(), *ok));
            }
            Ev::Crash { node, inc } | Ev::Stop { node, inc } => {
                self.down.insert((*node, *inc), t);
            }
            Ev::WatchRegister { wid, node, inc, key, is_prefix, applied_at_registration } => {
                self.watchers.insert(
                    *wid,
                    Watcher { node: *node, inc: *inc, key: key.clone(), is_prefix: *is_prefix, r0: *applied_at_registration, registered_at: t, got: Vec::new(), ended: None, ended_at: 0 },
                );
            }
            Ev::WatchRecv { wid, kind, key, value, revision } => {
                if let Some(w) = self.watchers.get_mut(wid) {
                    w.got.push((t, kind, key.clone(), value.clone(), *revision));
                }
            }
            Ev::WatchEnd { wid, why } => {
                if let Some(w) = self.watchers.get_mut(wid) {
                    w.ended = Some(why);
                    w.ended_at = t;
                }
            }
            _ => {}
        }
    }

    fn find(&mut self, t: u64, sig: &str, detail: serde_json::Value) {
        if self.findings.iter().filter(|f| f.signature == sig).count() < 3 {
            self.findings.push(Finding { property: "C24", signature: sig.to_string(), detail, t });
        }
    }

    /// `final_applied`: (node, inc) -> state machine applied index at the end (quiescent)
    pub fn finish(&mut self, t_end: u64, final_applied: &HashMap<(u32, u32), u64>) {
        let watchers: Vec<(u64, Watcher)> = self.watchers.iter().map(|(k, v)| (*k, v.clone())).collect();
        for (wid, w) in watchers {
            self.watchers_checked += 1;
            let empty = BTreeMap::new();
            let applied = self.applied.get(&(w.node, w.inc)).unwrap_or(&empty).clone();
            let desc = json!({"watcher": wid, "node": w.node, "key": show_bytes(&w.key), "prefix": w.is_prefix, "applied_index_at_registration": w.r0, "registered_at": w.registered_at});
            let mut last_rev = 0u64;
            let mut canceled_at: Option<usize> = None;
            let mut delivered: BTreeMap<u64, usize> = BTreeMap::new();
            for (i, (t, kind, key, value, rev)) in w.got.iter().enumerate() {
                self.events_checked += 1;
                if let Some(c) = canceled_at {
                    self.find(*t, "event-delivered-after-canceled", json!({"watcher": desc, "canceled_was_event_no": c, "then": [kind, show_bytes(key), rev]}));
                    break;
                }
                match *kind {
                    "canceled" => {
                        canceled_at = Some(i);
                        self.cancels_seen += 1;
                    }
                    "progress" => {
                        // liveness signal; its revision is the applied index at that moment
                    }
                    _ => {
                        if !matches(&w.key, w.is_prefix, key) {
                            self.find(*t, "event-for-key-outside-the-watched-key-or-prefix", json!({"watcher": desc, "event_key": show_bytes(key), "revision": rev}));
                        }
                        if *rev <= last_rev {
                            let sig = if *rev == last_rev { "duplicate-revision-delivered" } else { "revisions-not-increasing" };
                            self.find(*t, sig, json!({"watcher": desc, "previous_revision": last_rev, "revision": rev}));
                        }
                        last_rev = last_rev.max(*rev);
                        delivered.insert(*rev, i);
                        match applied.get(rev) {
                            None => {
                                self.find(*t, "event-for-an-entry-the-node-never-applied", json!({"watcher": desc, "event": [kind, show_bytes(key), show_bytes(value), rev]}));
                            }
                            Some((cmd, ok)) => match expected_event(cmd, *ok) {
                                None => {
                                    let sig = if matches!(cmd, Command::CompareAndSwap { .. }) { "event-for-a-failed-cas" } else { "event-for-an-entry-that-changes-nothing" };
                                    self.find(*t, sig, json!({"watcher": desc, "event": [kind, show_bytes(key), show_bytes(value), rev], "applied": crate::model::show_cmd(cmd), "applied_ok": ok}));
                                }
                                Some((ek, ekey, eval)) => {
                                    if ek != *kind || &ekey != key || (ek == "put" && &eval != value) {
                                        self.find(*t, "event-differs-from-the-applied-change", json!({"watcher": desc, "event": [kind, show_bytes(key), show_bytes(value), rev], "applied": crate::model::show_cmd(cmd)}));
                                    }
                                }
                            },
                        }
                    }
                }
            }
            // gaps: expected events with r0 < index <= upto that were not delivered
            let node_down_at = self.down.get(&(w.node, w.inc)).cloned();
            let still_read_at_end = w.ended.is_none() && node_down_at.is_none() && canceled_at.is_none();
            let upto = if still_read_at_end { final_applied.get(&(w.node, w.inc)).cloned().unwrap_or(last_rev).max(last_rev) } else { last_rev };
            let mut missing = Vec::new();
            let lo = w.r0 + 1;
            for (idx, (cmd, ok)) in applied.range(lo..=upto.max(lo)).filter(|(i, _)| **i <= upto) {
                if let Some((ek, ekey, _)) = expected_event(cmd, *ok)
                    && matches(&w.key, w.is_prefix, &ekey)
                    && !delivered.contains_key(idx)
                {
                    missing.push(json!([idx, ek, show_bytes(&ekey)]));
                }
            }
            if !missing.is_empty() {
                if canceled_at.is_some() {
                    // the stream was ended by CANCELED: a gap before it is announced, not silent
                    self.gaps_tolerated_by_cancel += 1;
                } else {
                    let sig = if still_read_at_end { "silent-gap:events-missing-and-stream-neither-canceled-nor-ended" } else { "silent-gap:events-missing-between-delivered-ones-without-canceled" };
                    let n = missing.len();
                    missing.truncate(8);
                    self.find(
                        t_end,
                        sig,
                        json!({"watcher": desc, "missing_events": n, "first_missing": missing, "last_delivered_revision": last_rev, "checked_upto": upto,
                               "delivered": w.got.len(), "ended": w.ended, "node_went_down_at": node_down_at}),
                    );
                }
            }
        }
    }
}
