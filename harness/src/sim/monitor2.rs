//! Lease / read-freshness monitor (C12, and classification of C11 findings).

use std::collections::BTreeMap;
use std::collections::BTreeSet;
use std::collections::HashMap;

use serde_json::json;

use super::monitor::Finding;
use super::monitor::LEADER;
use super::monitor::maj;
use super::record::AeKind;
use super::record::Ev;

#[derive(Default)]
pub struct LeaseMon {
    pub lease_ms: u64,
    /// ae id -> (leader, follower, term, send time)
    sent: HashMap<u64, (u32, u32, u64, u64)>,
    /// reply id -> success?
    reply_ok: HashMap<u64, bool>,
    /// (leader, term) -> follower -> latest *send time* of a request whose success reply reached the leader
    fresh: HashMap<(u32, u64), HashMap<u32, u64>>,
    /// term -> (node, time it became leader)
    became_leader: BTreeMap<u64, (u32, u64)>,
    stepped_down_at: HashMap<u32, u64>,
    pub findings: Vec<Finding>,
    /// times at which a leader served a leader-only read without a fresh quorum: (node, t, policy)
    pub unbacked_serves: Vec<(u32, u64, &'static str)>,
    pub lease_serves: u64,
    pub lease_serves_checked: u64,
    pub lin_serves: u64,
}

impl LeaseMon {
    fn find(&mut self, t: u64, sig: &str, detail: serde_json::Value) {
        if self.findings.iter().filter(|f| f.signature == sig).count() < 3 {
            self.findings.push(Finding { property: "C12", signature: sig.to_string(), detail, t });
        }
    }

    pub fn on_event(
        &mut self,
        t: u64,
        ev: &Ev,
        view: &HashMap<u32, (BTreeSet<u32>, BTreeSet<u32>)>,
        roles: &HashMap<u32, (i32, u64)>,
    ) {
        match ev {
            Ev::AeSend { id, from, to, term, .. } => {
                self.sent.insert(*id, (*from, *to, *term, t));
            }
            Ev::AeReply { id, rid, kind, term, .. } => {
                let ok = *kind == AeKind::Success && self.sent.get(id).is_some_and(|s| s.2 == *term);
                self.reply_ok.insert(*rid, ok);
            }
            Ev::AeReplyDeliver { id, rid, leader } => {
                if self.reply_ok.get(rid).cloned().unwrap_or(false)
                    && let Some((l, f, term, st)) = self.sent.get(id).cloned()
                    && l == *leader
                {
                    let e = self.fresh.entry((l, term)).or_default().entry(f).or_insert(0);
                    *e = (*e).max(st);
                }
            }
            Ev::RoleChange { node, from, to, term } => {
                if *to == LEADER {
                    self.became_leader.entry(*term).or_insert((*node, t));
                }
                if *from == LEADER {
                    self.stepped_down_at.insert(*node, t);
                }
            }
            Ev::ReadServed { node, path, policy, term } => {
                if *policy != "lease" && *policy != "linearizable" {
                    return;
                }
                if *policy == "lease" {
                    self.lease_serves += 1;
                } else {
                    self.lin_serves += 1;
                }
                // who is this node right now
                let role_now = roles.get(node).cloned();
                let is_leader = role_now.is_some_and(|(r, _)| r == LEADER);
                let my_term = role_now.map(|(_, tm)| tm).unwrap_or(*term);
                if *policy == "lease" && !is_leader {
                    self.find(
                        t,
                        &format!("lease-read-served-by-non-leader[{path}]"),
                        json!({"node": node, "role": role_now.map(|r| r.0), "path": path, "stepped_down_at": self.stepped_down_at.get(node)}),
                    );
                    return;
                }
                if !is_leader {
                    return;
                }
                // fresh quorum within the lease window (anchored at request send time)
                let (voters, _) = view.get(node).cloned().unwrap_or_default();
                let n_voters = voters.len().max(1);
                let lo = t.saturating_sub(self.lease_ms);
                let fresh = self.fresh.get(&(*node, my_term)).cloned().unwrap_or_default();
                let backing: Vec<u32> = voters
                    .iter()
                    .cloned()
                    .filter(|v| *v != *node && fresh.get(v).is_some_and(|st| *st >= lo))
                    .collect();
                // (2) a newer leader already exists although a fresh majority backs this one: the
                // lease window did not end before another node could win. (Without a fresh
                // majority the serve is reported by (3) below, which names the mechanism.)
                if let Some((tm, (n2, t2))) = self.became_leader.range((my_term + 1)..).find(|(_, (_, t2))| *t2 <= t)
                    && *policy == "lease"
                    && backing.len() + 1 >= maj(n_voters)
                {
                    self.find(
                        t,
                        &format!("lease-read-served-after-newer-leader-elected[{path}]"),
                        json!({"node": node, "term": my_term, "newer_leader": n2, "newer_term": tm, "elected_at": t2, "served_at": t, "acked_within_window": backing}),
                    );
                }
                // (3) no fresh quorum within the lease window
                if *policy == "lease" {
                    self.lease_serves_checked += 1;
                }
                if backing.len() + 1 < maj(n_voters) {
                    self.unbacked_serves.push((*node, t, *policy));
                    if *policy == "lease" {
                        let newest: Vec<_> = fresh.iter().map(|(k, v)| json!([k, t.saturating_sub(*v)])).collect();
                        self.find(
                            t,
                            &format!("lease-read-served-without-majority-ack-in-lease-window[{path}]"),
                            json!({"node": node, "term": my_term, "voters": voters, "acked_within_window": backing, "lease_ms": self.lease_ms, "age_ms_of_newest_acked_send_per_follower": newest}),
                        );
                    }
                }
            }
            _ => {}
        }
    }
}
