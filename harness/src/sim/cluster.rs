//! Cluster of simulated nodes on one paused current-thread runtime.

use std::collections::BTreeMap;
use std::collections::HashMap;
use std::fmt::Debug;
use std::path::Path;
use std::path::PathBuf;
use std::sync::Arc;
use std::sync::Mutex;
use std::sync::atomic::Ordering;
use std::time::Duration;

use async_trait::async_trait;
use bytes::Bytes;
use d_engine_core::ClientCmd;
use d_engine_core::Error;
use d_engine_core::MaybeCloneOneshot;
use d_engine_core::RaftLog;
use d_engine_core::RaftNodeConfig;
use d_engine_core::RaftOneshot;
use d_engine_core::StateMachine;
use d_engine_core::StorageEngine;
use d_engine_core::client::ClientReadRequest;
use d_engine_core::client::ClientResponsePayload;
use d_engine_core::client::ClientWriteRequest;
use d_engine_core::client::ErrorCode;
use d_engine_core::client::WriteOperation;
use d_engine_core::config::ReadConsistencyPolicy;
use d_engine_core::verif::VerifEvent;
use d_engine_proto::common::NodeRole;
use d_engine_proto::common::NodeStatus;
use d_engine_proto::server::cluster::NodeMeta;
use d_engine_server::FileStateMachine;
use d_engine_server::FileStorageEngine;
use d_engine_server::RocksDBStateMachine;
use d_engine_server::RocksDBStorageEngine;
use d_engine_server::storage::TtlLease;
use tokio::time::Instant;

use super::net::Net;
use super::node::LiveNode;
use super::node::start_node;
use super::record::ClientOp;
use super::record::ClientResult;
use super::record::Ev;
use super::record::Recorder;
use crate::util::Rng;

pub const BASE_CLOCK_MS: u64 = 100_000;

#[async_trait]
pub trait EngineKind: Send + Sync + 'static {
    type SE: StorageEngine + Debug;
    type SM: StateMachine + Debug;
    const NAME: &'static str;
    async fn open(dir: &Path, cfg: &RaftNodeConfig) -> Result<(Arc<Self::SE>, Self::SM), Error>;
}

pub struct FileKind;
pub struct RocksKind;

#[async_trait]
impl EngineKind for FileKind {
    type SE = FileStorageEngine;
    type SM = FileStateMachine;
    const NAME: &'static str = "file";
    async fn open(dir: &Path, cfg: &RaftNodeConfig) -> Result<(Arc<Self::SE>, Self::SM), Error> {
        let se = Arc::new(FileStorageEngine::new(dir.join("storage"))?);
        let mut sm = FileStateMachine::new(dir.join("state_machine")).await?;
        sm.set_lease(Arc::new(TtlLease::new(cfg.raft.state_machine.lease.clone())));
        Ok((se, sm))
    }
}

#[async_trait]
impl EngineKind for RocksKind {
    type SE = RocksDBStorageEngine;
    type SM = RocksDBStateMachine;
    const NAME: &'static str = "rocksdb";
    async fn open(dir: &Path, cfg: &RaftNodeConfig) -> Result<(Arc<Self::SE>, Self::SM), Error> {
        std::fs::create_dir_all(dir)?;
        let se = Arc::new(RocksDBStorageEngine::new(dir.join("storage"))?);
        let mut sm = RocksDBStateMachine::new(dir.join("state_machine"))?;
        sm.set_lease(Arc::new(TtlLease::new(cfg.raft.state_machine.lease.clone())));
        Ok((se, sm))
    }
}

#[derive(Clone, Debug)]
pub struct Params {
    pub voters: u32,
    pub election_min: u64,
    pub election_max: u64,
    pub heartbeat_ms: u64,
    pub lease_ms: u64,
    pub rtt_ms: u64,
    pub general_timeout_ms: u64,
    pub per_request_cap: u64,
    pub max_batch: usize,
    pub max_merge: usize,
    pub snapshot_threshold: u64,
    pub snapshot_enable: bool,
    pub retained: u64,
    pub default_policy: ReadConsistencyPolicy,
    pub allow_override: bool,
    pub max_pending_writes: usize,
    pub noop_timeout_ms: u64,
    pub learner_throttle_ms: u64,
    pub idle_flush_ms: u64,
    pub watch_queue: usize,
    pub watch_buf: usize,
    pub watch_hb_ms: u64,
    /// snapshot chunk size in bytes (0 = repository default)
    pub snapshot_chunk: usize,
}

impl Default for Params {
    fn default() -> Self {
        Params {
            voters: 3,
            election_min: 300,
            election_max: 600,
            heartbeat_ms: 50,
            lease_ms: 200,
            rtt_ms: 4,
            general_timeout_ms: 1500,
            per_request_cap: 100,
            max_batch: 100,
            max_merge: 1000,
            snapshot_threshold: 1_000_000,
            snapshot_enable: true,
            retained: 1,
            default_policy: ReadConsistencyPolicy::LinearizableRead,
            allow_override: true,
            max_pending_writes: 10_000,
            noop_timeout_ms: 3_000,
            learner_throttle_ms: 100,
            idle_flush_ms: 200,
            watch_queue: 1000,
            watch_buf: 10,
            watch_hb_ms: 0,
            snapshot_chunk: 0,
        }
    }
}

pub struct Slot<K: EngineKind> {
    pub cfg: RaftNodeConfig,
    pub dir: PathBuf,
    pub inc: u32,
    pub live: Option<LiveNode<K::SE, K::SM>>,
}

#[derive(Clone, Debug, Default)]
pub struct RoleInfo {
    pub role: i32,
    pub term: u64,
}

pub struct Shared {
    pub roles: BTreeMap<u32, RoleInfo>,
    pub lease_owner: HashMap<usize, u32>,
    pub next_op: u64,
    /// election timeout overrides: node -> forced next timeouts (consumed FIFO)
    pub forced_timeouts: BTreeMap<u32, Vec<u64>>,
}

pub struct Cluster<K: EngineKind> {
    pub params: Params,
    pub base: PathBuf,
    pub slots: BTreeMap<u32, Slot<K>>,
    pub net: Net,
    pub rec: Recorder,
    pub rng: Rng,
    pub shared: Arc<Mutex<Shared>>,
    pub t0: Instant,
    /// nodes taken down by a vote-window crash, to be restarted at the given virtual time
    pub pending_restarts: Vec<(u32, u64)>,
}

fn addr(id: u32) -> String {
    format!("127.0.0.1:{}", 9000 + id)
}

pub fn node_meta(id: u32, learner: bool) -> NodeMeta {
    NodeMeta {
        id,
        address: addr(id),
        role: if learner { NodeRole::Learner as i32 } else { NodeRole::Follower as i32 },
        status: if learner { NodeStatus::Promotable as i32 } else { NodeStatus::Active as i32 },
    }
}

pub fn make_config(p: &Params, id: u32, initial: Vec<NodeMeta>, dir: &Path) -> RaftNodeConfig {
    let mut c = RaftNodeConfig::default();
    c.cluster.node_id = id;
    c.cluster.listen_address = addr(id).parse().unwrap();
    c.cluster.initial_cluster = initial;
    c.cluster.db_root_dir = dir.join("db");
    c.cluster.log_dir = dir.join("logs");
    c.raft.election.election_timeout_min = p.election_min;
    c.raft.election.election_timeout_max = p.election_max;
    c.raft.replication.rpc_append_entries_clock_in_ms = p.heartbeat_ms;
    c.raft.replication.append_entries_max_entries_per_replication = p.per_request_cap;
    c.raft.batching.max_batch_size = p.max_batch;
    c.raft.batching.max_merge_entries = p.max_merge;
    c.raft.general_raft_timeout_duration_in_ms = p.general_timeout_ms;
    c.raft.read_consistency.lease_duration_ms = p.lease_ms;
    c.raft.read_consistency.network_rtt_p99_ms = p.rtt_ms;
    c.raft.read_consistency.default_policy = p.default_policy.clone();
    c.raft.read_consistency.allow_client_override = p.allow_override;
    c.raft.snapshot.enable = p.snapshot_enable;
    c.raft.snapshot.max_log_entries_before_snapshot = p.snapshot_threshold;
    c.raft.snapshot.snapshot_cool_down_since_last_check = Duration::from_millis(0);
    c.raft.snapshot.retained_log_entries = p.retained;
    if p.snapshot_chunk > 0 {
        c.raft.snapshot.chunk_size = p.snapshot_chunk;
    }
    c.raft.snapshot.snapshots_dir = dir.join("snapshots");
    c.raft.snapshot.receive_chunk_timeout_in_sec = 2;
    c.raft.snapshot_rpc_timeout_ms = 10_000;
    c.raft.backpressure.max_pending_writes = p.max_pending_writes;
    c.raft.membership.verify_leadership_persistent_timeout =
        Duration::from_millis(p.noop_timeout_ms);
    c.raft.learner_check_throttle_ms = p.learner_throttle_ms;
    c.raft.persistence.flush_policy = d_engine_core::FlushPolicy::Batch {
        idle_flush_interval_ms: p.idle_flush_ms,
    };
    c.raft.state_machine.lease.cleanup_interval_ms = 1000;
    c.raft.watch.event_queue_size = p.watch_queue;
    c.raft.watch.watcher_buffer_size = p.watch_buf;
    c.raft.watch.heartbeat_interval_ms = p.watch_hb_ms;
    c.retry.election.timeout_ms = 100;
    c.retry.election.max_retries = 3;
    c.retry.election.base_delay_ms = 20;
    c.retry.election.max_delay_ms = 200;
    c.retry.join_cluster.max_retries = 5;
    c.retry.join_cluster.timeout_ms = p.general_timeout_ms + 500;
    c.retry.join_cluster.base_delay_ms = 200;
    c.retry.join_cluster.max_delay_ms = 1000;
    c
}

pub(super) fn copy_dir(src: &Path, dst: &Path) -> std::io::Result<()> {
    std::fs::create_dir_all(dst)?;
    for e in std::fs::read_dir(src)? {
        let e = e?;
        let ft = e.file_type()?;
        let to = dst.join(e.file_name());
        if ft.is_dir() {
            copy_dir(&e.path(), &to)?;
        } else if ft.is_file() {
            if e.file_name() == "LOCK" {
                // RocksDB lock file: content irrelevant, recreate empty
                std::fs::write(&to, b"")?;
            } else {
                std::fs::copy(e.path(), &to)?;
            }
        }
    }
    Ok(())
}

impl<K: EngineKind> Cluster<K> {
    pub fn new(params: Params, seed: u64, scratch: &Path) -> Self {
        let t0 = Instant::now();
        let rec = Recorder::new();
        let net = Net::new(rec.clone(), seed ^ 0xA5A5, t0);
        rec.online().net = Some(net.clone());
        rec.online().lease.lease_ms = params.lease_ms;
        let shared = Arc::new(Mutex::new(Shared {
            roles: BTreeMap::new(),
            lease_owner: HashMap::new(),
            next_op: 1,
            forced_timeouts: BTreeMap::new(),
        }));
        let c = Cluster {
            params,
            base: scratch.to_path_buf(),
            slots: BTreeMap::new(),
            net,
            rec,
            rng: Rng::new(seed),
            shared,
            t0,
            pending_restarts: Vec::new(),
        };
        c.install_hooks(seed);
        c
    }

    pub fn now(&self) -> u64 {
        self.net.now()
    }

    fn install_hooks(&self, seed: u64) {
        let rec = self.rec.clone();
        let t0 = self.t0;
        let shared = self.shared.clone();
        d_engine_core::verif::set_sink(Some(Arc::new(move |ev: &VerifEvent| {
            let t = Instant::now().duration_since(t0).as_millis() as u64;
            let e = match ev.clone() {
                VerifEvent::RoleChange { node, from, to, term } => {
                    shared.lock().unwrap().roles.insert(node, RoleInfo { role: to, term });
                    Ev::RoleChange { node, from, to, term }
                }
                VerifEvent::Term { node, old, new } => Ev::Term { node, old, new },
                VerifEvent::Vote { node, term, candidate, committed, current_term } => {
                    Ev::Vote { node, term, candidate, committed, current_term }
                }
                VerifEvent::VoteReset { node, term } => Ev::VoteReset { node, term },
                VerifEvent::Commit { node, leader, term, old, new } => {
                    Ev::Commit { node, leader, term, old, new }
                }
                VerifEvent::ReadServed { node, path, policy, term, lease } => {
                    let n = if node != 0 {
                        node
                    } else {
                        shared.lock().unwrap().lease_owner.get(&lease).cloned().unwrap_or(0)
                    };
                    Ev::ReadServed { node: n, path, policy, term }
                }
                VerifEvent::LeaderNotify { node, leader, term } => {
                    Ev::LeaderNotify { node, leader, term }
                }
            };
            rec.push(t, e);
        })));
        d_engine_core::verif::set_clock_override(Some(Arc::new(move || {
            BASE_CLOCK_MS + Instant::now().duration_since(t0).as_millis() as u64
        })));
        // Election timeouts: seeded; scenarios can force specific values. The callback has no
        // node id, so forcing applies to "the next timer(s) armed", which scenarios sequence.
        let trng = Arc::new(Mutex::new(Rng::new(seed ^ 0x7177)));
        let shared2 = self.shared.clone();
        d_engine_core::verif::set_election_timeout_override(Some(Arc::new(move |min, max| {
            let mut s = shared2.lock().unwrap();
            if let Some(q) = s.forced_timeouts.get_mut(&0)
                && !q.is_empty()
            {
                return q.remove(0);
            }
            drop(s);
            trng.lock().unwrap().range(min, max.saturating_sub(1).max(min))
        })));
    }

    pub fn uninstall_hooks() {
        d_engine_core::verif::set_sink(None);
        d_engine_core::verif::set_clock_override(None);
        d_engine_core::verif::set_election_timeout_override(None);
    }

    /// queue forced election timeouts for the next timers that get armed
    pub fn force_timeouts(&self, ts: &[u64]) {
        self.shared.lock().unwrap().forced_timeouts.entry(0).or_default().extend_from_slice(ts);
    }

    pub fn initial_metas(&self) -> Vec<NodeMeta> {
        (1..=self.params.voters).map(|i| node_meta(i, false)).collect()
    }

    /// create slots for the initial voters and start them
    pub async fn bootstrap(&mut self) -> Result<(), Error> {
        let metas = self.initial_metas();
        for i in 1..=self.params.voters {
            let dir = self.base.join(format!("n{i}_0"));
            std::fs::create_dir_all(&dir)?;
            let cfg = make_config(&self.params, i, metas.clone(), &dir);
            self.slots.insert(i, Slot { cfg, dir, inc: 0, live: None });
        }
        for i in 1..=self.params.voters {
            self.start(i).await?;
        }
        Ok(())
    }

    /// like `bootstrap` but only the listed voters are started (the others stay down)
    pub async fn bootstrap_only(&mut self, ids: &[u32]) -> Result<(), Error> {
        let metas = self.initial_metas();
        for i in 1..=self.params.voters {
            let dir = self.base.join(format!("n{i}_0"));
            std::fs::create_dir_all(&dir)?;
            let cfg = make_config(&self.params, i, metas.clone(), &dir);
            self.slots.insert(i, Slot { cfg, dir, inc: 0, live: None });
        }
        for i in ids {
            self.start(*i).await?;
        }
        Ok(())
    }

    pub async fn start(&mut self, id: u32) -> Result<(), Error> {
        let (cfg, dir, inc) = {
            let s = self.slots.get(&id).expect("slot");
            (s.cfg.clone(), s.dir.clone(), s.inc)
        };
        std::fs::create_dir_all(cfg.raft.snapshot.snapshots_dir.clone())?;
        let (se, sm) = K::open(&dir, &cfg).await?;
        let mut live =
            start_node::<K::SE, K::SM>(cfg, se, sm, self.net.clone(), self.rec.clone(), inc)
                .await?;
        {
            // membership watcher: publishes this node's committed membership view
            let mut rx = live.membership_rx.clone();
            let rec = self.rec.clone();
            let net = self.net.clone();
            let push = move |s: &d_engine_server::verif_export::MembershipSnapshot| {
                rec.push(
                    net.now(),
                    Ev::Membership {
                        node: id,
                        voters: s.members.iter().cloned().collect(),
                        learners: s.learners.iter().cloned().collect(),
                        index: s.committed_index,
                    },
                );
            };
            push(&rx.borrow_and_update().clone());
            live.aux_tasks.push(tokio::spawn(async move {
                while rx.changed().await.is_ok() {
                    let s = rx.borrow_and_update().clone();
                    push(&s);
                }
            }));
        }
        {
            let mut sh = self.shared.lock().unwrap();
            sh.lease_owner.insert(Arc::as_ptr(&live.lease) as usize, id);
            let learner = live.cfg.is_learner();
            sh.roles.insert(
                id,
                RoleInfo {
                    role: if learner { NodeRole::Learner as i32 } else { NodeRole::Follower as i32 },
                    term: 0,
                },
            );
        }
        self.slots.get_mut(&id).unwrap().live = Some(live);
        Ok(())
    }

    /// Add a brand-new node that joins as learner (Promotable) through the real join flow.
    pub async fn add_learner(&mut self, id: u32) -> Result<(), Error> {
        let dir = self.base.join(format!("n{id}_0"));
        std::fs::create_dir_all(&dir)?;
        // the joining node's config lists the existing voters + itself as learner
        let mut metas = self.initial_metas();
        metas.push(node_meta(id, true));
        let cfg = make_config(&self.params, id, metas, &dir);
        self.slots.insert(id, Slot { cfg, dir, inc: 0, live: None });
        self.start(id).await
    }

    /// Process crash: take a disk image *now*, detach, abort; restart later from the image.
    pub fn crash(&mut self, id: u32) {
        let Some(slot) = self.slots.get_mut(&id) else { return };
        let Some(live) = slot.live.take() else { return };
        let new_dir = self.base.join(format!("n{}_{}", id, slot.inc + 1));
        let staged = new_dir.exists();
        if !staged {
            let _ = copy_dir(&slot.dir, &new_dir);
        } // else: a vote-window crash already took the image at the instant of the crash
        self.net.unregister(id);
        self.net.clear_dead(id);
        if !staged {
            self.rec.push(self.net.now(), Ev::Crash { node: id, inc: slot.inc });
        }
        live.abort_all();
        // Old instance keeps writing (Drop handlers) into the abandoned directory only.
        self.shared.lock().unwrap().roles.remove(&id);
        // re-point config dirs to the image
        let old = slot.dir.clone();
        slot.dir = new_dir.clone();
        slot.inc += 1;
        let fix = |p: &PathBuf| -> PathBuf {
            match p.strip_prefix(&old) {
                Ok(rest) => new_dir.join(rest),
                Err(_) => p.clone(),
            }
        };
        slot.cfg.cluster.db_root_dir = fix(&slot.cfg.cluster.db_root_dir);
        slot.cfg.cluster.log_dir = fix(&slot.cfg.cluster.log_dir);
        slot.cfg.raft.snapshot.snapshots_dir = fix(&slot.cfg.raft.snapshot.snapshots_dir);
        // keep the dead instance alive a little so its aborted tasks can unwind
        std::mem::forget(live.shutdown_tx);
    }

    /// Graceful stop: real shutdown signal, wait for the raft loop to return, then drop.
    pub async fn stop(&mut self, id: u32) {
        let Some(slot) = self.slots.get_mut(&id) else { return };
        let Some(live) = slot.live.take() else { return };
        self.rec.push(self.net.now(), Ev::Stop { node: id, inc: slot.inc });
        let _ = live.shutdown_tx.send(());
        let deadline = Duration::from_millis(3000);
        let LiveNode { raft_task, aux_tasks, sm, raft_log, .. } = live;
        let _ = tokio::time::timeout(deadline, raft_task).await;
        self.net.unregister(id);
        // give SM worker / commit handler a moment to drain, then stop the rest
        tokio::time::sleep(Duration::from_millis(50)).await;
        for t in &aux_tasks {
            t.abort();
        }
        for t in aux_tasks {
            let _ = t.await;
        }
        // mirrors EmbeddedEngine::stop / Node shutdown: SM stop persists its state
        let _ = sm.stop();
        sm.close_storage();
        drop(sm);
        drop(raft_log);
        tokio::task::yield_now().await;
        self.shared.lock().unwrap().roles.remove(&id);
        slot.inc += 1;
    }

    /// Complete vote-window crashes staged by the network (image already taken, node already cut
    /// off) and restart them a little later, while the election that made them vote is still on.
    pub async fn service_vote_crashes(&mut self, cl: &ClientHandle) {
        let staged = self.net.take_staged();
        for id in staged {
            self.crash(id);
            let at = self.now() + self.rng.range(40, 220);
            self.pending_restarts.push((id, at));
            self.refresh(cl);
        }
        let now = self.now();
        let due: Vec<u32> = self.pending_restarts.iter().filter(|(_, at)| *at <= now).map(|(i, _)| *i).collect();
        self.pending_restarts.retain(|(_, at)| *at > now);
        for id in due {
            if self.node(id).is_none() && self.slots.contains_key(&id) {
                self.rec.push(self.net.now(), Ev::Fault { desc: format!("restart {id} (after vote-window crash)") });
                let _ = self.start(id).await;
                self.refresh(cl);
            }
        }
    }

    pub fn live_ids(&self) -> Vec<u32> {
        self.slots.iter().filter(|(_, s)| s.live.is_some()).map(|(i, _)| *i).collect()
    }

    pub fn node(&self, id: u32) -> Option<&LiveNode<K::SE, K::SM>> {
        self.slots.get(&id).and_then(|s| s.live.as_ref())
    }

    pub fn role_of(&self, id: u32) -> Option<RoleInfo> {
        self.shared.lock().unwrap().roles.get(&id).cloned()
    }

    /// current leaders according to role-change hooks (may be >1 across terms)
    pub fn leaders(&self) -> Vec<(u32, u64)> {
        let sh = self.shared.lock().unwrap();
        sh.roles
            .iter()
            .filter(|(id, r)| {
                r.role == NodeRole::Leader as i32
                    && self.slots.get(id).is_some_and(|s| s.live.is_some())
            })
            .map(|(id, r)| (*id, r.term))
            .collect()
    }

    pub fn leader(&self) -> Option<u32> {
        self.leaders().into_iter().max_by_key(|(_, t)| *t).map(|(i, _)| i)
    }

    pub async fn sleep(&self, ms: u64) {
        tokio::time::sleep(Duration::from_millis(ms)).await;
    }

    /// wait (virtual time) until some live node is leader, up to `max_ms`
    pub async fn wait_leader(&self, max_ms: u64) -> Option<u32> {
        let end = self.now() + max_ms;
        loop {
            if let Some(l) = self.leader() {
                return Some(l);
            }
            if self.now() >= end {
                return None;
            }
            self.sleep(10).await;
        }
    }

    pub fn next_op(&self) -> u64 {
        let mut s = self.shared.lock().unwrap();
        let v = s.next_op;
        s.next_op += 1;
        v
    }

    pub fn client(&self) -> ClientHandle {
        let mut targets = BTreeMap::new();
        for (id, s) in &self.slots {
            if let Some(l) = &s.live {
                targets.insert(
                    *id,
                    Target {
                        cmd_tx: l.cmd_tx.clone(),
                        embedded: Arc::new(EmbeddedDyn(l.embedded_read.clone())),
                        standalone: l.standalone_read.clone(),
                    },
                );
            }
        }
        ClientHandle {
            targets: Arc::new(Mutex::new(targets)),
            rec: self.rec.clone(),
            net: self.net.clone(),
            shared: self.shared.clone(),
        }
    }

    /// refresh a client's routing table after restarts
    pub fn refresh(&self, c: &ClientHandle) {
        let fresh = self.client();
        let t = fresh.targets.lock().unwrap().clone();
        *c.targets.lock().unwrap() = t;
    }

    /// log signatures of node `id` over its whole held range
    pub fn log_sigs(&self, id: u32) -> Option<(u64, u64, Vec<(u64, u64, u64)>)> {
        self.log_sigs_tail(id, u64::MAX)
    }

    /// like `log_sigs` but only the last `tail` entries are read and hashed (first/last still
    /// describe the whole held range)
    pub fn log_sigs_tail(&self, id: u32, tail: u64) -> Option<(u64, u64, Vec<(u64, u64, u64)>)> {
        let n = self.node(id)?;
        let mut first = n.raft_log.first_entry_id();
        let mut last = n.raft_log.last_entry_id();
        if last == 0 {
            // empty log: report the snapshot/purge boundary as (first = b + 1, last = b) so
            // that "covered by compaction" is distinguishable from "lost"
            let b = n.raft_log.last_log_id().map(|l| l.index).unwrap_or(0);
            first = b + 1;
            last = b;
        }
        let mut v = Vec::new();
        if last > 0 {
            let from = first.max(1).max(last.saturating_sub(tail.saturating_sub(1)));
            let ents = n.raft_log.get_entries_range(from..=last).ok()?;
            for e in ents {
                use prost::Message;
                let h = e.payload.as_ref().map(|p| crate::util::fnv64(&p.encode_to_vec())).unwrap_or(0);
                v.push((e.index, e.term, h));
            }
        }
        Some((first, last, v))
    }

    pub fn set_apply_delay(&self, id: u32, ms: u64) {
        if let Some(n) = self.node(id) {
            n.knobs.apply_delay_ms.store(ms, Ordering::Relaxed);
        }
    }

    pub fn fail_next_apply(&self, id: u32) {
        if let Some(n) = self.node(id) {
            n.knobs.fail_next_apply.store(true, Ordering::Relaxed);
        }
    }

    pub async fn shutdown_all(&mut self) {
        let ids: Vec<u32> = self.live_ids();
        for id in ids {
            if let Some(slot) = self.slots.get_mut(&id)
                && let Some(live) = slot.live.take()
            {
                self.net.unregister(id);
                live.abort_all();
                let LiveNode { raft_task, aux_tasks, sm, .. } = live;
                let _ = raft_task.await;
                for t in aux_tasks {
                    let _ = t.await;
                }
                sm.close_storage();
            }
        }
        tokio::task::yield_now().await;
    }
}

// ------------------------------------------------------------------------------------------
// Clients
// ------------------------------------------------------------------------------------------

#[async_trait]
pub trait EmbeddedReadDyn: Send + Sync {
    async fn get_batch(
        &self,
        keys: &[Bytes],
        c: ReadConsistencyPolicy,
        client_id: u32,
        timeout: Duration,
    ) -> d_engine_core::client::ClientApiResult<Vec<Option<Bytes>>>;
}

pub struct EmbeddedDyn<T: d_engine_core::TypeConfig>(
    pub d_engine_server::verif_export::VerifEmbeddedRead<T>,
);

#[async_trait]
impl<T: d_engine_core::TypeConfig> EmbeddedReadDyn for EmbeddedDyn<T> {
    async fn get_batch(
        &self,
        keys: &[Bytes],
        c: ReadConsistencyPolicy,
        client_id: u32,
        timeout: Duration,
    ) -> d_engine_core::client::ClientApiResult<Vec<Option<Bytes>>> {
        self.0.get_batch(keys, c, client_id, timeout).await
    }
}

#[derive(Clone)]
pub struct Target {
    pub cmd_tx: tokio::sync::mpsc::Sender<ClientCmd>,
    pub embedded: Arc<dyn EmbeddedReadDyn>,
    pub standalone: d_engine_server::verif_export::VerifStandaloneRead,
}

#[derive(Clone)]
pub struct ClientHandle {
    pub targets: Arc<Mutex<BTreeMap<u32, Target>>>,
    pub rec: Recorder,
    pub net: Net,
    pub shared: Arc<Mutex<Shared>>,
}

pub fn policy_of(s: &str) -> ReadConsistencyPolicy {
    match s {
        "lease" => ReadConsistencyPolicy::LeaseRead,
        "eventual" => ReadConsistencyPolicy::EventualConsistency,
        _ => ReadConsistencyPolicy::LinearizableRead,
    }
}

fn classify_status(s: &tonic::Status) -> ClientResult {
    use tonic::Code;
    match s.code() {
        Code::FailedPrecondition | Code::ResourceExhausted | Code::InvalidArgument => {
            ClientResult::Rejected { why: format!("{:?}: {}", s.code(), s.message()) }
        }
        _ => ClientResult::Indeterminate { why: format!("{:?}: {}", s.code(), s.message()) },
    }
}

impl ClientHandle {
    fn op_id(&self) -> u64 {
        let mut s = self.shared.lock().unwrap();
        let v = s.next_op;
        s.next_op += 1;
        v
    }
    fn target(&self, node: u32) -> Option<Target> {
        self.targets.lock().unwrap().get(&node).cloned()
    }
    pub fn nodes(&self) -> Vec<u32> {
        self.targets.lock().unwrap().keys().cloned().collect()
    }

    /// Submit a write exactly like `EmbeddedClient` / the gRPC handler: `ClientCmd::Propose`.
    pub async fn write(
        &self,
        client: u32,
        node: u32,
        op: ClientOp,
        client_timeout_ms: u64,
    ) -> (u64, ClientResult) {
        let id = self.op_id();
        self.rec.push(self.net.now(), Ev::Invoke { op: id, client, node, what: op.clone() });
        let command = match &op {
            ClientOp::Put { key, value, ttl } => Some(WriteOperation::Insert {
                key: Bytes::copy_from_slice(key),
                value: Bytes::copy_from_slice(value),
                ttl_secs: *ttl,
            }),
            ClientOp::Del { key } => Some(WriteOperation::Delete { key: Bytes::copy_from_slice(key) }),
            ClientOp::Cas { key, expected, new } => Some(WriteOperation::CompareAndSwap {
                key: Bytes::copy_from_slice(key),
                expected: expected.as_ref().map(|e| Bytes::copy_from_slice(e)),
                new_value: Bytes::copy_from_slice(new),
            }),
            _ => None,
        };
        let res = match self.target(node) {
            None => ClientResult::Rejected { why: "node down (connection refused)".into() },
            Some(t) => {
                let (tx, rx) = MaybeCloneOneshot::new();
                let req = ClientWriteRequest { client_id: client, command };
                if t.cmd_tx.send(ClientCmd::Propose(req, tx)).await.is_err() {
                    ClientResult::Rejected { why: "command channel closed".into() }
                } else {
                    match tokio::time::timeout(Duration::from_millis(client_timeout_ms), rx).await {
                        Err(_) => ClientResult::Indeterminate { why: "client timeout".into() },
                        Ok(Err(_)) => ClientResult::Dropped,
                        Ok(Ok(Err(status))) => classify_status(&status),
                        Ok(Ok(Ok(resp))) => match (resp.error, &resp.result) {
                            (ErrorCode::Success, Some(ClientResponsePayload::Write(w))) => {
                                ClientResult::WriteOk { succeeded: w.succeeded }
                            }
                            (ErrorCode::NotLeader, _) => {
                                ClientResult::Rejected { why: "NotLeader".into() }
                            }
                            (e, _) => ClientResult::Indeterminate { why: format!("{e:?}") },
                        },
                    }
                }
            }
        };
        self.rec.push(self.net.now(), Ev::Return { op: id, result: res.clone() });
        (id, res)
    }

    /// Read through one of the three paths: "cmd" (Raft command path), "embedded"
    /// (EmbeddedReadHandle), "actor" (StandaloneReadHandle + ReadActor).
    pub async fn read(
        &self,
        client: u32,
        node: u32,
        keys: Vec<Vec<u8>>,
        policy: Option<&'static str>,
        path: &'static str,
        client_timeout_ms: u64,
    ) -> (u64, ClientResult) {
        let id = self.op_id();
        let what = ClientOp::Read { keys: keys.clone(), policy, path };
        self.rec.push(self.net.now(), Ev::Invoke { op: id, client, node, what });
        let kb: Vec<Bytes> = keys.iter().map(|k| Bytes::copy_from_slice(k)).collect();
        let to = Duration::from_millis(client_timeout_ms);
        let res = match self.target(node) {
            None => ClientResult::Rejected { why: "node down (connection refused)".into() },
            Some(t) => match path {
                "cmd" => {
                    let (tx, rx) = MaybeCloneOneshot::new();
                    let req = ClientReadRequest {
                        client_id: client,
                        keys: kb.clone(),
                        consistency_policy: policy.map(policy_of),
                    };
                    if t.cmd_tx.send(ClientCmd::Read(req, tx)).await.is_err() {
                        ClientResult::Rejected { why: "command channel closed".into() }
                    } else {
                        match tokio::time::timeout(to, rx).await {
                            Err(_) => ClientResult::Indeterminate { why: "client timeout".into() },
                            Ok(Err(_)) => ClientResult::Dropped,
                            Ok(Ok(Err(status))) => classify_status(&status),
                            Ok(Ok(Ok(resp))) => match (resp.error, resp.result) {
                                (ErrorCode::Success, Some(ClientResponsePayload::Read(r))) => {
                                    let m: HashMap<Bytes, Bytes> =
                                        r.entries.into_iter().map(|e| (e.key, e.value)).collect();
                                    ClientResult::ReadOk {
                                        values: kb.iter().map(|k| m.get(k).map(|v| v.to_vec())).collect(),
                                    }
                                }
                                (ErrorCode::NotLeader, _) => {
                                    ClientResult::Rejected { why: "NotLeader".into() }
                                }
                                (e, _) => ClientResult::Indeterminate { why: format!("{e:?}") },
                            },
                        }
                    }
                }
                "embedded" | "actor" => {
                    let p = policy_of(policy.unwrap_or("linearizable"));
                    let r = if path == "embedded" {
                        t.embedded.get_batch(&kb, p, client, to).await
                    } else {
                        t.standalone.get_batch(&kb, p, client, to).await
                    };
                    match r {
                        Ok(values) => ClientResult::ReadOk {
                            values: values.into_iter().map(|v| v.map(|b| b.to_vec())).collect(),
                        },
                        Err(e) => {
                            let s = format!("{e:?}");
                            if s.contains("NotLeader") || s.contains("Not leader") {
                                ClientResult::Rejected { why: s }
                            } else {
                                ClientResult::Indeterminate { why: s }
                            }
                        }
                    }
                }
                _ => ClientResult::Rejected { why: "bad path".into() },
            },
        };
        self.rec.push(self.net.now(), Ev::Return { op: id, result: res.clone() });
        (id, res)
    }

    pub async fn scan(
        &self,
        client: u32,
        node: u32,
        prefix: Vec<u8>,
        client_timeout_ms: u64,
    ) -> (u64, ClientResult) {
        let id = self.op_id();
        self.rec.push(
            self.net.now(),
            Ev::Invoke { op: id, client, node, what: ClientOp::Scan { prefix: prefix.clone() } },
        );
        let res = match self.target(node) {
            None => ClientResult::Rejected { why: "node down".into() },
            Some(t) => {
                let (tx, rx) = MaybeCloneOneshot::new();
                if t.cmd_tx.send(ClientCmd::Scan(Bytes::from(prefix), tx)).await.is_err() {
                    ClientResult::Rejected { why: "command channel closed".into() }
                } else {
                    match tokio::time::timeout(Duration::from_millis(client_timeout_ms), rx).await {
                        Err(_) => ClientResult::Indeterminate { why: "client timeout".into() },
                        Ok(Err(_)) => ClientResult::Dropped,
                        Ok(Ok(Err(status))) => classify_status(&status),
                        Ok(Ok(Ok(r))) => ClientResult::ScanOk {
                            entries: r.entries.into_iter().map(|(k, v)| (k.to_vec(), v.to_vec())).collect(),
                            revision: r.revision,
                        },
                    }
                }
            }
        };
        self.rec.push(self.net.now(), Ev::Return { op: id, result: res.clone() });
        (id, res)
    }
}
