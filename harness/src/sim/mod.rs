pub mod cluster;
pub mod net;
pub mod node;
pub mod record;
