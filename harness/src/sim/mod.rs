pub mod cluster;
pub mod monitor;
pub mod net;
pub mod node;
pub mod record;
pub mod scenario;
