//! Online monitors: run inside `Recorder::push`, i.e. at the very moment an event is observed,
//! with synchronous read access to every live node's raft log. Single-threaded runtime, so the
//! state they read cannot change underneath them.

use std::collections::BTreeMap;
use std::collections::BTreeSet;
use std::collections::HashMap;

use serde_json::Value;
use serde_json::json;

use super::net::Net;
use super::record::AeKind;
use super::record::ClientOp;
use super::record::ClientResult;
use super::record::Ev;
use crate::util::fnv64;
use crate::util::show_bytes;

pub const LEADER: i32 = 3;
pub const LEARNER: i32 = 4;

#[derive(Clone, Debug)]
pub struct Finding {
    pub property: &'static str,
    pub signature: String,
    pub detail: Value,
    pub t: u64,
}

#[derive(Clone, Debug)]
struct AckInfo {
    follower: u32,
    leader: u32,
    kind: AeKind,
    term: u64,
    match_index: u64,
    truthful: Option<bool>,
}

#[derive(Default)]
pub struct Counters {
    pub elections_won: u64,
    pub leader_changes: u64,
    pub commits: u64,
    pub applies: u64,
    pub crashes: u64,
    pub restarts: u64,
    pub vote_grants: u64,
    pub ae_sent: u64,
    pub ae_acks: u64,
    pub conflicts: u64,
    pub snapshots: u64,
    pub installs: u64,
    pub reads_served: u64,
    pub lease_reads_served: u64,
    pub membership_changes: u64,
    pub writes_ok: u64,
    pub rejected: u64,
    pub indeterminate: u64,
    pub follower_commits: u64,
    pub notifications: u64,
    pub step_downs: u64,
    pub replayed_applies: u64,
    pub joins_ok: u64,
    pub joins_rejected: u64,
    pub promotions: u64,
    pub view_pairs_checked: u64,
    pub purge_checks: u64,
    pub client_timeouts: u64,
}

pub struct Online {
    pub net: Option<Net>,
    pub findings: Vec<Finding>,
    pub counters: Counters,
    /// schedule signature ingredients
    pub sig_trace: Vec<u64>,

    // committed sequence: index -> (term, hash, committing leader, leader term)
    pub committed: BTreeMap<u64, (u64, u64, u32, u64)>,
    leaders_by_term: BTreeMap<u64, BTreeSet<u32>>,
    wire_leaders_by_term: BTreeMap<u64, BTreeSet<u32>>,
    /// per voter: term -> (candidate, incarnation, t)
    grants: HashMap<u32, BTreeMap<u64, (u32, u32, u64)>>,
    max_term_seen: HashMap<u32, u64>,
    incarnation: HashMap<u32, u32>,
    crashed_at: HashMap<u32, Vec<u64>>,
    vote_resets: HashMap<u32, Vec<(u64, u64)>>, // node -> (t, term)
    vote_outcomes: HashMap<(u32, u64), (Vec<u32>, Vec<u32>)>,
    /// membership view per node (voters incl. self, learners)
    pub view: HashMap<u32, (BTreeSet<u32>, BTreeSet<u32>)>,
    acks_by_id: HashMap<u64, AckInfo>,
    /// (leader, term) -> follower -> max truthful delivered match
    delivered: HashMap<(u32, u64), HashMap<u32, u64>>,
    /// roles as of now
    pub roles: HashMap<u32, (i32, u64)>,
    // apply monitors
    last_applied: HashMap<(u32, u32), u64>,
    applied: BTreeMap<u64, (u64, bool, u32)>, // index -> (cmd hash, ok, first node)
    pub applied_values: HashMap<Vec<u8>, Vec<(u32, u64, bool, u64)>>, // unique value -> (node, index, ok, t)
    // client ops
    pub ops: BTreeMap<u64, (u32, u32, ClientOp, u64)>, // op -> (client, node, what, invoke t)
    pub results: BTreeMap<u64, (ClientResult, u64)>,
    // leader notifications
    notify_terms: HashMap<(u32, u32), u64>,
    notified: BTreeMap<u64, BTreeSet<u32>>,
    /// per node: highest committed index it was seen holding (for loss detection)
    held_committed: HashMap<(u32, u32), u64>,
    /// per node known commit index (from Commit events)
    pub commit_index: HashMap<u32, u64>,
    /// which checks are muted (a scenario may legitimately exercise e.g. tier-N faults only for
    /// some properties)
    pub tier_n_active: bool,
    installed_upto: HashMap<(u32, u32), u64>,
    tainted: std::collections::HashSet<(u32, u32)>,
    /// (node, index) -> (incarnation, ok, cmd hash) of the first apply
    applied_by_inc: HashMap<(u32, u64), (u32, bool, u64)>,
    /// global event sequence number (strict order within one millisecond)
    pub seq: u64,
    pub call_seq: BTreeMap<u64, u64>,
    pub ret_seq: BTreeMap<u64, u64>,
    /// policy under which each read op was actually served (from ReadServed hooks in its window)
    pub read_phase_start: Option<u64>,
    pub lease: super::monitor2::LeaseMon,
    /// (snapshot last index, term) -> state machine last_applied at generation
    snapshot_content: HashMap<(u64, u64), u64>,
    /// (node, inc) -> (boundary, content upto) of an installed snapshot whose content was ahead
    content_ahead: HashMap<(u32, u32), (u64, u64)>,
    /// nodes that are up right now
    pub live: BTreeSet<u32>,
    /// (joiner, leader) -> was the joiner already a member of the leader's view when it asked
    join_req_existing: HashMap<(u32, u32), bool>,
    /// nodes that restarted at least once: node -> (restarts, view just before the last stop/crash)
    pub restarted: HashMap<u32, (u32, Option<(BTreeSet<u32>, BTreeSet<u32>)>)>,
    /// C30: a request left unanswered for this long (virtual ms) while its node stayed up is a
    /// violation (None = bound not applicable in this scenario)
    pub reply_bound_ms: Option<u64>,
    /// highest purge boundary already reported per (node, inc)
    purge_seen: HashMap<(u32, u32), u64>,
    /// (node, inc) -> (highest boundary of a snapshot generated or installed, boundary of the last installed one)
    snapshots_held: HashMap<(u32, u32), (u64, Option<u64>)>,
    /// index -> command as first applied anywhere (the agreed applied sequence)
    applied_cmds: BTreeMap<u64, d_engine_core::Command>,
    /// index -> term of the entry first seen applied at that index
    applied_terms: HashMap<u64, u64>,
    pub final_state_checks: u64,
    pub checkpoints: u64,
    /// node -> virtual time at which its current incarnation entered the Raft loop
    loop_started: HashMap<u32, u64>,
    started_as_learner: BTreeSet<u32>,
    /// node -> (t, role it changed to)
    role_hist: HashMap<u32, Vec<(u64, i32)>>,
    /// (t, kind) with kind 0 = vote request sent, 1 = answered (any answer), 2 = granted, 3 = round ended
    vote_activity: Vec<(u64, u8)>,
    /// (t, candidate, term, votes granted by peers, number of peers asked)
    vote_rounds: Vec<(u64, u32, u64, usize, usize)>,
    /// crashed nodes whose old tasks may still emit hook events until they are aborted
    zombies: BTreeSet<u32>,
    pub watch: super::watchmon::WatchMon,
}

pub fn maj(n: usize) -> usize {
    n / 2 + 1
}

fn unique_value(op: &ClientOp) -> Option<Vec<u8>> {
    match op {
        ClientOp::Put { value, .. } => Some(value.clone()),
        ClientOp::Cas { new, .. } => Some(new.clone()),
        _ => None,
    }
}

fn cmd_value(c: &d_engine_core::Command) -> Option<Vec<u8>> {
    match c {
        d_engine_core::Command::Insert { value, .. } => Some(value.to_vec()),
        d_engine_core::Command::CompareAndSwap { value, .. } => Some(value.to_vec()),
        _ => None,
    }
}

fn cmd_hash(c: &d_engine_core::Command) -> u64 {
    fnv64(format!("{c:?}").as_bytes())
}

impl Online {
    pub fn new() -> Self {
        Online {
            net: None,
            findings: Vec::new(),
            counters: Counters::default(),
            sig_trace: Vec::new(),
            committed: BTreeMap::new(),
            leaders_by_term: BTreeMap::new(),
            wire_leaders_by_term: BTreeMap::new(),
            grants: HashMap::new(),
            max_term_seen: HashMap::new(),
            incarnation: HashMap::new(),
            crashed_at: HashMap::new(),
            vote_resets: HashMap::new(),
            vote_outcomes: HashMap::new(),
            view: HashMap::new(),
            acks_by_id: HashMap::new(),
            delivered: HashMap::new(),
            roles: HashMap::new(),
            last_applied: HashMap::new(),
            applied: BTreeMap::new(),
            applied_values: HashMap::new(),
            ops: BTreeMap::new(),
            results: BTreeMap::new(),
            notify_terms: HashMap::new(),
            notified: BTreeMap::new(),
            held_committed: HashMap::new(),
            commit_index: HashMap::new(),
            tier_n_active: false,
            installed_upto: HashMap::new(),
            tainted: std::collections::HashSet::new(),
            applied_by_inc: HashMap::new(),
            seq: 0,
            call_seq: BTreeMap::new(),
            ret_seq: BTreeMap::new(),
            read_phase_start: None,
            lease: super::monitor2::LeaseMon::default(),
            snapshot_content: HashMap::new(),
            content_ahead: HashMap::new(),
            live: BTreeSet::new(),
            join_req_existing: HashMap::new(),
            restarted: HashMap::new(),
            reply_bound_ms: None,
            purge_seen: HashMap::new(),
            snapshots_held: HashMap::new(),
            applied_cmds: BTreeMap::new(),
            applied_terms: HashMap::new(),
            final_state_checks: 0,
            checkpoints: 0,
            loop_started: HashMap::new(),
            started_as_learner: BTreeSet::new(),
            role_hist: HashMap::new(),
            vote_activity: Vec::new(),
            vote_rounds: Vec::new(),
            zombies: BTreeSet::new(),
            watch: super::watchmon::WatchMon::default(),
        }
    }

    /// report a finding from scenario-level (end-of-run) oracles
    pub fn report(&mut self, t: u64, property: &'static str, signature: impl Into<String>, detail: Value) {
        self.find(t, property, signature, detail)
    }

    fn find(&mut self, t: u64, property: &'static str, signature: impl Into<String>, detail: Value) {
        let signature = signature.into();
        // bound memory: keep first few per signature
        let n = self
            .findings
            .iter()
            .filter(|f| f.property == property && f.signature == signature)
            .count();
        if n < 3 {
            self.findings.push(Finding { property, signature, detail, t });
        }
    }

    fn log_sig(&self, node: u32, idx: u64) -> Option<(u64, u64)> {
        self.net.as_ref()?.endpoint(node)?.log.sig(idx)
    }
    fn log_bounds(&self, node: u32) -> Option<(u64, u64)> {
        let ep = self.net.as_ref()?.endpoint(node)?;
        Some((ep.log.first(), ep.log.last()))
    }
    fn log_term(&self, node: u32, idx: u64) -> Option<u64> {
        self.net.as_ref()?.endpoint(node)?.log.term_of(idx)
    }

    fn restarted_between(&self, node: u32, t1: u64, t2: u64) -> bool {
        self.crashed_at.get(&node).is_some_and(|v| v.iter().any(|c| *c >= t1 && *c <= t2))
    }

    pub fn on_event(&mut self, t: u64, ev: &Ev) {
        // a crashed node is dead for the model from the instant of the crash; hook events of its
        // not-yet-aborted tasks are not observations of the system
        match ev {
            Ev::Crash { node, .. } => {
                self.zombies.insert(*node);
            }
            Ev::Start { node, .. } => {
                self.zombies.remove(node);
            }
            Ev::RoleChange { node, .. }
            | Ev::Term { node, .. }
            | Ev::Vote { node, .. }
            | Ev::VoteReset { node, .. }
            | Ev::Commit { node, .. }
            | Ev::ReadServed { node, .. }
            | Ev::LeaderNotify { node, .. }
            | Ev::Apply { node, .. }
            | Ev::SnapshotInstall { node, .. }
            | Ev::SnapshotGenerate { node, .. }
            | Ev::Membership { node, .. }
                if self.zombies.contains(node) =>
            {
                return;
            }
            _ => {}
        }
        self.seq += 1;
        self.watch.on_event(t, ev);
        {
            let (view, roles) = (&self.view, &self.roles);
            self.lease.on_event(t, ev, view, roles);
        }
        match ev {
            Ev::Invoke { op, .. } => {
                self.call_seq.insert(*op, self.seq);
            }
            Ev::Return { op, .. } => {
                self.ret_seq.insert(*op, self.seq);
            }
            Ev::Phase { name } if name == "heal+quiet" => {
                self.read_phase_start = Some(self.seq);
            }
            _ => {}
        }
        match ev {
            Ev::Start { node, inc, learner, applied } => {
                // what a restarted node recovered counts as applied by this incarnation: the
                // next entry it applies follows it, and a snapshot installed below it is older
                // than the state the node already has
                if *applied > 0 {
                    self.last_applied.insert((*node, *inc), *applied);
                }
                if *learner {
                    self.started_as_learner.insert(*node);
                } else {
                    self.started_as_learner.remove(node);
                }
                self.incarnation.insert(*node, *inc);
                self.live.insert(*node);
                if *inc > 0 {
                    self.counters.restarts += 1;
                    self.restarted.entry(*node).or_insert((0, None)).0 += 1;
                }
            }
            Ev::LoopStart { node, .. } => {
                // `Raft::run` of a node configured as learner first tries to fetch an initial
                // snapshot from the leader (connect + startup timeouts) before it serves anything
                let grace = if self.started_as_learner.contains(node) { 5_000 } else { 0 };
                self.loop_started.insert(*node, t + grace);
            }
            Ev::NodeExit { node, fatal, .. } if !*fatal => {
                // a node whose join failed never served anything and terminates: like a stop
                self.crashed_at.entry(*node).or_default().push(t);
                self.roles.remove(node);
                self.live.remove(node);
                self.loop_started.remove(node);
            }
            Ev::Crash { node, .. } | Ev::Stop { node, .. } => {
                self.loop_started.remove(node);
                self.crashed_at.entry(*node).or_default().push(t);
                self.roles.remove(node);
                self.live.remove(node);
                let before = self.view.get(node).cloned();
                let e = self.restarted.entry(*node).or_insert((0, None));
                e.1 = before;
                if matches!(ev, Ev::Crash { .. }) {
                    self.counters.crashes += 1;
                    self.sig_trace.push(0xC000 + *node as u64);
                }
            }
            Ev::Membership { node, voters, learners, .. } => {
                self.view.insert(
                    *node,
                    (voters.iter().cloned().collect(), learners.iter().cloned().collect()),
                );
                self.counters.membership_changes += 1;
                self.check_view_pairs(t, *node);
            }
            Ev::JoinReq { from, to } => {
                let existing = self.view.get(to).is_some_and(|(v, l)| v.contains(from) || l.contains(from));
                self.join_req_existing.insert((*from, *to), existing);
            }
            Ev::JoinReply { node, leader, success } => {
                if *success {
                    self.counters.joins_ok += 1;
                    self.on_join_success(t, *node, *leader);
                } else {
                    self.counters.joins_rejected += 1;
                }
            }
            Ev::RoleChange { node, from, to, term } => {
                self.roles.insert(*node, (*to, *term));
                self.role_hist.entry(*node).or_default().push((t, *to));
                if *from == LEADER {
                    self.counters.step_downs += 1;
                }
                if *from == LEARNER && *to != LEARNER {
                    self.counters.promotions += 1;
                    self.on_learner_promoted(t, *node, *to);
                }
                if *to == LEADER {
                    self.counters.elections_won += 1;
                    self.sig_trace.push(0x1000 + (*node as u64) * 64 + (*term & 63));
                    self.on_become_leader(t, *node, *term);
                }
            }
            Ev::Term { node, old, new } => {
                let m = self.max_term_seen.get(node).cloned().unwrap_or(0);
                if *old < m || *new < *old {
                    let restarted = !self.crashed_at.get(node).map(|v| v.is_empty()).unwrap_or(true);
                    self.find(
                        t,
                        "C02",
                        if restarted { "term-decreased-after-restart" } else { "term-decreased" },
                        json!({"node": node, "max_term_seen_before": m, "term_now": old, "then": new}),
                    );
                }
                let e = self.max_term_seen.entry(*node).or_insert(0);
                *e = (*e).max(*new).max(*old);
            }
            Ev::Vote { node, term, candidate, committed, .. } => {
                if !*committed {
                    let inc = self.incarnation.get(node).cloned().unwrap_or(0);
                    self.record_grant(t, *node, inc, *term, *candidate, "internal");
                }
            }
            Ev::VoteReset { node, term } => {
                self.vote_resets.entry(*node).or_default().push((t, *term));
            }
            Ev::VoteReply { voter, voter_inc, candidate, req_term, granted, reply_term } => {
                // NOTE: the term carried by a VoteResponse is the term the follower had *before*
                // processing the request (it answers with the pre-update value), so it may lag
                // the node's current term without the term having decreased: not checked here.
                let _ = reply_term;
                self.vote_activity.push((t, 1));
                if *granted {
                    self.vote_activity.push((t, 2));
                    self.counters.vote_grants += 1;
                    self.record_grant(t, *voter, *voter_inc, *req_term, *candidate, "wire");
                    // learners never vote
                    if let Some((r, _)) = self.roles.get(voter)
                        && *r == LEARNER
                    {
                        self.find(t, "C27", "learner-granted-vote", json!({"voter": voter, "term": req_term, "candidate": candidate}));
                    }
                }
            }
            Ev::VoteReq { from, term, .. } => {
                self.vote_activity.push((t, 0));
                if let Some((r, _)) = self.roles.get(from)
                    && *r == LEARNER
                {
                    self.find(t, "C27", "learner-started-election", json!({"node": from, "term": term}));
                }
            }
            Ev::VoteOutcome { candidate, term, granted_by, peers } => {
                self.vote_activity.push((t, 3));
                self.vote_rounds.push((t, *candidate, *term, granted_by.len(), peers.len()));
                self.vote_outcomes.insert((*candidate, *term), (granted_by.clone(), peers.clone()));
            }
            Ev::AeSend { from, term, contiguous, prev_index, first, n, to, id, .. } => {
                self.counters.ae_sent += 1;
                let s = self.wire_leaders_by_term.entry(*term).or_default();
                s.insert(*from);
                if s.len() > 1 {
                    let who: Vec<u32> = s.iter().cloned().collect();
                    self.find(t, "C01", "two-leaders-one-term-on-wire", json!({"term": term, "leaders": who}));
                }
                if !*contiguous {
                    self.find(
                        t,
                        "C08",
                        "non-contiguous-append-request",
                        json!({"ae": id, "from": from, "to": to, "prev_index": prev_index, "first_entry": first, "entries": n}),
                    );
                }
            }
            Ev::AeReply { rid, follower, leader, kind, term, match_index, truthful, .. } => {
                if *kind == AeKind::Conflict {
                    self.counters.conflicts += 1;
                }
                self.acks_by_id.insert(
                    *rid,
                    AckInfo {
                        follower: *follower,
                        leader: *leader,
                        kind: kind.clone(),
                        term: *term,
                        match_index: *match_index,
                        truthful: *truthful,
                    },
                );
            }
            Ev::AeReplyDeliver { rid, leader, .. } => {
                self.counters.ae_acks += 1;
                if let Some(a) = self.acks_by_id.get(rid).cloned()
                    && a.kind == AeKind::Success
                    && a.leader == *leader
                    && a.truthful != Some(false)
                {
                    let e = self
                        .delivered
                        .entry((a.leader, a.term))
                        .or_default()
                        .entry(a.follower)
                        .or_insert(0);
                    *e = (*e).max(a.match_index);
                }
            }
            Ev::Commit { node, leader, term, old, new } => {
                self.commit_index.insert(*node, *new);
                if *leader {
                    self.counters.commits += 1;
                    self.on_leader_commit(t, *node, *term, *old, *new);
                } else {
                    self.counters.follower_commits += 1;
                    self.on_follower_commit(t, *node, *term, *old, *new);
                }
            }
            Ev::LeaderNotify { node, leader, term } => {
                self.counters.notifications += 1;
                let inc = self.incarnation.get(node).cloned().unwrap_or(0);
                let prev = self.notify_terms.get(&(*node, inc)).cloned().unwrap_or(0);
                if *term < prev {
                    self.find(t, "C31", "notified-term-decreased", json!({"node": node, "prev_term": prev, "term": term, "leader": leader}));
                }
                self.notify_terms.insert((*node, inc), (*term).max(prev));
                if let Some(l) = leader {
                    let s = self.notified.entry(*term).or_default();
                    s.insert(*l);
                    if s.len() > 1 {
                        let who: Vec<u32> = s.iter().cloned().collect();
                        self.find(t, "C31", "two-leaders-notified-for-one-term", json!({"term": term, "leaders": who}));
                    }
                    // must really be (or have been) leader in that term
                    let acting = self.leaders_by_term.get(term).is_some_and(|s| s.contains(l))
                        || self.wire_leaders_by_term.get(term).is_some_and(|s| s.contains(l));
                    if !acting {
                        self.find(t, "C31", "notified-leader-never-led-that-term", json!({"node": node, "term": term, "leader": l}));
                    }
                }
            }
            Ev::Apply { node, inc, index, cmd, ok, term } => {
                self.counters.applies += 1;
                self.applied_terms.entry(*index).or_insert(*term);
                let key = (*node, *inc);
                let h = cmd_hash(cmd);
                // (a) entry covered by a snapshot this incarnation installed: applied on top of
                // the replaced state. Everything this incarnation applies afterwards is a
                // consequence, so it is excluded from the other C06 oracles.
                if let Some(si) = self.installed_upto.get(&key).cloned()
                    && *index <= si
                {
                    self.find(t, "C06", "stale-batch-applied-after-snapshot-install", json!({"node": node, "inc": inc, "snapshot_last_included": si, "applied": index}));
                    self.tainted.insert(key);
                }
                // (b) replay after restart of an entry an earlier incarnation already applied:
                // the restored state must make the replay a no-op (C15). Observable when the
                // replayed CAS reports a different outcome.
                let earlier_inc = self.applied_by_inc.get(&(*node, *index)).cloned();
                if let Some((inc0, ok0, h0)) = earlier_inc
                    && inc0 != *inc
                {
                    if h0 == h && ok0 != *ok {
                        self.find(t, "C15", "replay-after-restart-changed-cas-outcome", json!({"node": node, "index": index, "first_inc": inc0, "first_ok": ok0, "replay_inc": inc, "replay_ok": ok, "cmd": crate::model::show_cmd(cmd)}));
                        self.tainted.insert(key);
                    }
                    self.counters.replayed_applies += 1;
                } else {
                    self.applied_by_inc.insert((*node, *index), (*inc, *ok, h));
                }
                // (c) replay of entries whose effects the installed snapshot already contained
                // (snapshot content ahead of its recorded boundary, the C16 defect)
                if let Some((b, c)) = self.content_ahead.get(&key).cloned()
                    && *index > b
                    && *index <= c
                {
                    if let Some((h0, ok0, _)) = self.applied.get(index).cloned()
                        && h0 == h
                        && ok0 != *ok
                    {
                        self.find(t, "C06", "entry-replayed-on-snapshot-that-already-contained-it-changed-outcome", json!({"node": node, "inc": inc, "index": index, "snapshot_boundary": b, "snapshot_content_upto": c, "first_ok": ok0, "replay_ok": ok}));
                    }
                    self.tainted.insert(key);
                }
                let tainted = self.tainted.contains(&key);
                if let Some(prev) = self.last_applied.get(&key).cloned()
                    && *index != prev + 1
                    && !tainted
                {
                    let sig = if *index <= prev { "index-applied-twice-or-backwards" } else { "apply-gap" };
                    self.find(t, "C06", sig, json!({"node": node, "inc": inc, "prev_applied": prev, "applied": index}));
                }
                self.last_applied.insert(key, *index);
                if !tainted && !(earlier_inc.is_some_and(|(i0, _, _)| i0 != *inc)) {
                    match self.applied.get(index).cloned() {
                        Some((h0, ok0, n0)) => {
                            if n0 != *node && (h0 != h || ok0 != *ok) {
                                self.find(
                                    t,
                                    "C06",
                                    if h0 != h { "different-command-at-same-index" } else { "different-result-at-same-index" },
                                    json!({"index": index, "node_a": n0, "node_b": node, "cmd_b": crate::model::show_cmd(cmd), "ok_a": ok0, "ok_b": ok}),
                                );
                            }
                        }
                        None => {
                            self.applied.insert(*index, (h, *ok, *node));
                            self.applied_cmds.insert(*index, cmd.clone());
                        }
                    }
                }
                if let Some(v) = cmd_value(cmd) {
                    self.applied_values.entry(v).or_default().push((*node, *index, *ok, t));
                }
            }
            Ev::SnapshotInstall { node, inc, last_index, last_term } => {
                self.counters.installs += 1;
                if let Some(prev) = self.last_applied.get(&(*node, *inc)).cloned()
                    && prev > *last_index
                {
                    self.find(t, "C06", "installed-snapshot-older-than-applied-state", json!({"node": node, "inc": inc, "applied_before_install": prev, "snapshot_last_included": last_index}));
                    self.tainted.insert((*node, *inc));
                }
                // content of this snapshot may be ahead of its boundary (C16): remember how far
                if let Some(c) = self.snapshot_content.get(&(*last_index, *last_term)).cloned()
                    && c > *last_index
                {
                    self.content_ahead.insert((*node, *inc), (*last_index, c));
                }
                self.last_applied.insert((*node, *inc), *last_index);
                let h = self.snapshots_held.entry((*node, *inc)).or_insert((0, None));
                h.0 = h.0.max(*last_index);
                h.1 = Some(*last_index);
                let e = self.installed_upto.entry((*node, *inc)).or_insert(0);
                *e = (*e).max(*last_index);
                self.sig_trace.push(0x5000 + *node as u64);
            }
            Ev::SnapshotGenerate { node, inc, last_index, last_term, sm_last_applied } => {
                self.counters.snapshots += 1;
                let h = self.snapshots_held.entry((*node, *inc)).or_insert((0, None));
                h.0 = h.0.max(*last_index);
                let e = self.snapshot_content.entry((*last_index, *last_term)).or_insert(0);
                *e = (*e).max(*sm_last_applied);
                // C33: the recorded boundary becomes the purge boundary, whose term the leader
                // sends as prev_log_term: it has to be the term of the entry at that index
                if let Some(et) = self.applied_terms.get(last_index).cloned()
                    && et != *last_term
                    && !self.tainted.contains(&(*node, *inc))
                {
                    self.find(
                        t,
                        "C33",
                        "snapshot-boundary-term-is-not-the-term-of-the-entry-at-the-boundary",
                        json!({"node": node, "recorded_last_included": [last_index, last_term], "term_of_that_entry": et, "state_machine_last_applied_at_generation": sm_last_applied}),
                    );
                }
                // C16: a snapshot's recorded boundary matches the state it contains
                if *sm_last_applied != *last_index && !self.tainted.contains(&(*node, *inc)) {
                    self.find(
                        t,
                        "C16",
                        "snapshot-content-ahead-of-recorded-boundary",
                        json!({"node": node, "recorded_last_included": [last_index, last_term], "state_machine_last_applied_at_generation": sm_last_applied}),
                    );
                }
            }
            Ev::ReadServed { policy, .. } => {
                self.counters.reads_served += 1;
                if *policy == "lease" {
                    self.counters.lease_reads_served += 1;
                }
            }
            Ev::Invoke { op, client, node, what } => {
                self.ops.insert(*op, (*client, *node, what.clone(), t));
            }
            Ev::Return { op, result } => {
                self.results.insert(*op, (result.clone(), t));
                match result {
                    ClientResult::WriteOk { succeeded } => {
                        self.counters.writes_ok += 1;
                        self.on_write_ok(t, *op, *succeeded);
                    }
                    ClientResult::Rejected { .. } => self.counters.rejected += 1,
                    ClientResult::Indeterminate { why } => {
                        self.counters.indeterminate += 1;
                        if why == "client timeout" {
                            self.counters.client_timeouts += 1;
                            self.on_client_timeout(t, *op);
                        }
                    }
                    ClientResult::Dropped => {
                        // a crashed / stopped node takes its connections down with it: that is
                        // a broken connection, not a silently dropped request
                        let (n, it) = self.ops.get(op).map(|(_, n, _, it)| (*n, *it)).unwrap_or((0, 0));
                        if self.restarted_between(n, it, t) || !self.roles.contains_key(&n) && self.crashed_at.contains_key(&n) {
                            return;
                        }
                        // the node must have been serving (inside its Raft loop) when asked
                        if !self.loop_started.get(&n).is_some_and(|ls| *ls <= it) {
                            return;
                        }
                        let d = self.ops.get(op).map(|(c, n, w, it)| json!({"client": c, "node": n, "op": super::record::op_json(w), "invoked_at": it}));
                        self.find(t, "C30", "reply-channel-dropped-without-reply", json!({"op": op, "request": d}));
                    }
                    _ => {}
                }
            }
            Ev::Fault { .. } | Ev::Phase { .. } => {
                self.sig_trace.push(0xF000 + (t / 100));
            }
            _ => {}
        }
    }

    /// (requests sent, answered, granted, rounds ended) since `t0`
    pub fn vote_activity_since(&self, t0: u64) -> (u64, u64, u64, u64) {
        let mut c = [0u64; 4];
        for (t, k) in &self.vote_activity {
            if *t >= t0 {
                c[*k as usize] += 1;
            }
        }
        (c[0], c[1], c[2], c[3])
    }

    /// vote rounds since `t0` in which the candidate held a majority (own vote included) and yet
    /// nobody became leader of that term: (candidate, term, votes incl. own, voters)
    pub fn won_rounds_without_leader_since(&self, t0: u64, now: u64) -> Vec<(u32, u64, usize, usize)> {
        self.vote_rounds
            .iter()
            .filter(|(t, _, term, granted, peers)| *t >= t0 && *t + 200 <= now && maj(peers + 1) <= granted + 1 && !self.leaders_by_term.contains_key(term))
            .map(|(_, c, term, granted, peers)| (*c, *term, granted + 1, peers + 1))
            .collect()
    }

    fn record_grant(&mut self, t: u64, voter: u32, inc: u32, term: u64, candidate: u32, how: &str) {
        let prev = self.grants.entry(voter).or_default().get(&term).cloned();
        match prev {
            Some((c0, inc0, t0)) if c0 != candidate => {
                let restarted = inc0 != inc || self.restarted_between(voter, t0, t);
                let reset_same_term = self
                    .vote_resets
                    .get(&voter)
                    .is_some_and(|v| v.iter().any(|(rt, rterm)| *rt >= t0 && *rt <= t && *rterm == term));
                let sig = if restarted {
                    "double-grant-after-restart"
                } else if reset_same_term {
                    "double-grant-after-same-term-vote-reset"
                } else {
                    "double-grant"
                };
                self.find(
                    t,
                    "C02",
                    sig,
                    json!({"voter": voter, "term": term, "first": c0, "first_at": t0, "second": candidate, "second_at": t, "seen": how}),
                );
            }
            Some(_) => {}
            None => {
                self.grants.entry(voter).or_default().insert(term, (candidate, inc, t));
            }
        }
    }

    fn on_become_leader(&mut self, t: u64, node: u32, term: u64) {
        self.counters.leader_changes += 1;
        let s = self.leaders_by_term.entry(term).or_default();
        s.insert(node);
        if s.len() > 1 {
            let who: Vec<u32> = s.iter().cloned().collect();
            // classify mechanism: did some voter grant to both?
            let mut double_voters = Vec::new();
            for (v, g) in &self.grants {
                let _ = (v, g);
            }
            for (k, (granted, _)) in &self.vote_outcomes {
                if k.1 == term {
                    double_voters.push(json!({"candidate": k.0, "granted_by": granted}));
                }
            }
            self.find(t, "C01", "two-leaders-one-term", json!({"term": term, "leaders": who, "vote_outcomes": double_voters}));
        }
        // C03: vote collection
        let (voters, _) = self.view.get(&node).cloned().unwrap_or_default();
        let others: Vec<u32> = voters.iter().cloned().filter(|v| *v != node).collect();
        match self.vote_outcomes.get(&(node, term)).cloned() {
            None => {
                if !others.is_empty() {
                    self.find(
                        t,
                        "C03",
                        "leader-without-collecting-votes",
                        json!({"node": node, "term": term, "other_voters_in_its_view": others}),
                    );
                }
            }
            Some((granted, peers)) => {
                // C26/C01 cross-check: elected by a majority of its *own* view
                let total = voters.len().max(peers.len() + 1);
                if granted.len() + 1 < maj(total) {
                    self.find(
                        t,
                        "C01",
                        "leader-without-vote-majority",
                        json!({"node": node, "term": term, "granted_by": granted, "asked": peers, "voters_in_view": voters}),
                    );
                }
                for g in &granted {
                    // the granter must really be a learner: the recorded view of the candidate can
                    // lag its membership (the candidate asked this peer, so its own membership
                    // lists it as a voter), the granter's own role cannot
                    if self.view.get(&node).is_some_and(|(_, l)| l.contains(g)) && self.roles.get(g).is_some_and(|(r, _)| *r == LEARNER) {
                        self.find(t, "C27", "learner-vote-counted", json!({"candidate": node, "term": term, "learner": g}));
                    }
                }
            }
        }
        // C05 (1): every committed entry must be in the new leader's log (or compacted)
        if let Some((first, last)) = self.log_bounds(node) {
            if last > 0 {
                let mut missing = Vec::new();
                for (i, (ct, ch, by, lt)) in self.committed.iter() {
                    if *lt >= term {
                        continue;
                    }
                    if *i < first.max(1) {
                        continue; // compacted into a snapshot
                    }
                    match self.log_sig(node, *i) {
                        Some((mt, mh)) if mt == *ct && mh == *ch => {}
                        other => {
                            missing.push(json!({"index": i, "committed_term": ct, "committed_by": by, "in_leader_term": lt, "new_leader_has": other.map(|o| o.0)}));
                            if missing.len() >= 5 {
                                break;
                            }
                        }
                    }
                }
                if !missing.is_empty() {
                    self.find(
                        t,
                        "C05",
                        "new-leader-lacks-committed-entry",
                        json!({"leader": node, "term": term, "log": [first, last], "missing": missing}),
                    );
                }
            } else if let Some((maxc, _)) = self.committed.iter().next_back() {
                // empty log: only legitimate if a snapshot covers everything committed
                let _ = maxc;
            }
        }
    }

    fn on_leader_commit(&mut self, t: u64, node: u32, term: u64, old: u64, new: u64) {
        // C09 (a): entry N is from the leader's current term
        match self.log_term(node, new) {
            Some(et) if et == term => {}
            other => {
                self.find(t, "C09", "commit-of-non-current-term-entry", json!({"leader": node, "term": term, "index": new, "entry_term": other}));
            }
        }
        // C09 (b): backed by a voter majority of the leader's own view
        let (voters, learners) = self.view.get(&node).cloned().unwrap_or_default();
        let n_voters = voters.len().max(1);
        let acks = self.delivered.get(&(node, term)).cloned().unwrap_or_default();
        let mut backing: Vec<u32> = vec![node];
        for v in voters.iter().filter(|v| **v != node) {
            if acks.get(v).cloned().unwrap_or(0) >= new {
                backing.push(*v);
            }
        }
        if backing.len() < maj(n_voters) {
            let learners_acked: Vec<u32> =
                learners.iter().cloned().filter(|l| acks.get(l).cloned().unwrap_or(0) >= new).collect();
            let sig = if acks.is_empty() {
                "commit-before-any-ack"
            } else if !learners_acked.is_empty() && backing.len() + learners_acked.len() >= maj(n_voters) {
                "commit-counting-learner"
            } else {
                "commit-without-voter-majority"
            };
            self.find(
                t,
                "C09",
                sig,
                json!({"leader": node, "term": term, "commit": new, "old": old, "voters": voters, "backing": backing, "acks": acks.iter().map(|(k, v)| json!([k, v])).collect::<Vec<_>>(), "learners_acked": learners_acked}),
            );
        }
        // committed sequence (C05/C06)
        let lo = old + 1;
        let span = new.saturating_sub(old).min(10_000);
        for i in lo..lo + span {
            if let Some((et, eh)) = self.log_sig(node, i) {
                match self.committed.get(&i).cloned() {
                    Some((ct, ch, by, lt)) => {
                        if ct != et || ch != eh {
                            self.find(
                                t,
                                "C05",
                                "two-different-entries-committed-at-one-index",
                                json!({"index": i, "first": {"term": ct, "by": by, "leader_term": lt}, "second": {"term": et, "by": node, "leader_term": term}}),
                            );
                        }
                    }
                    None => {
                        self.committed.insert(i, (et, eh, node, term));
                    }
                }
            }
        }
        if new > old {
            self.sig_trace.push(0x2000 + (new / 16));
        }
    }

    fn on_follower_commit(&mut self, t: u64, node: u32, term: u64, old: u64, new: u64) {
        if new < old {
            self.find(t, "C07", "follower-commit-index-decreased", json!({"node": node, "old": old, "new": new}));
            return;
        }
        let (first, last) = self.log_bounds(node).unwrap_or((0, 0));
        let span = (new - old).min(10_000);
        for i in old + 1..old + 1 + span {
            if i < first.max(1) {
                continue;
            }
            let mine = self.log_sig(node, i);
            match self.committed.get(&i).cloned() {
                Some((ct, ch, by, _lt)) => match mine {
                    Some((mt, mh)) if mt == ct && mh == ch => {}
                    other => {
                        self.find(
                            t,
                            "C07",
                            "follower-committed-entry-differs-from-leader",
                            json!({"follower": node, "term": term, "index": i, "follower_entry_term": other.map(|o| o.0), "committed_term": ct, "committed_by": by, "follower_log": [first, last], "commit_range": [old, new]}),
                        );
                        break;
                    }
                },
                None => {
                    // the leader never reported this index committed
                    let maxc = self.committed.keys().next_back().cloned().unwrap_or(0);
                    self.find(
                        t,
                        "C07",
                        "follower-commit-beyond-any-leader-commit",
                        json!({"follower": node, "term": term, "index": i, "max_leader_commit": maxc}),
                    );
                    break;
                }
            }
        }
    }

    fn on_write_ok(&mut self, t: u64, op: u64, succeeded: bool) {
        let Some((_c, node, what, _it)) = self.ops.get(&op).cloned() else { return };
        let Some(v) = unique_value(&what) else { return };
        // C29: success only after the request's own entry is applied on the answering leader,
        // and the CAS flag equals the outcome applied at that entry.
        let on_leader: Vec<(u32, u64, bool, u64)> = self
            .applied_values
            .get(&v)
            .map(|x| x.iter().cloned().filter(|(n, _, _, _)| *n == node).collect())
            .unwrap_or_default();
        if on_leader.is_empty() {
            let elsewhere = self.applied_values.get(&v).cloned().unwrap_or_default();
            self.find(
                t,
                "C29",
                "success-before-apply-on-leader",
                json!({"op": op, "leader": node, "value": show_bytes(&v), "applied_elsewhere": elsewhere.iter().map(|e| json!([e.0, e.1])).collect::<Vec<_>>()}),
            );
        } else if let Some((_, idx, ok, _)) = on_leader.first() {
            if matches!(what, ClientOp::Cas { .. }) && *ok != succeeded {
                self.find(
                    t,
                    "C29",
                    "cas-response-differs-from-applied-outcome",
                    json!({"op": op, "leader": node, "index": idx, "applied_ok": ok, "responded": succeeded}),
                );
            }
        }
    }

    /// C26: two nodes that are voters in their own committed view must not hold views that admit
    /// two disjoint majorities.
    fn check_view_pairs(&mut self, t: u64, node: u32) {
        let Some((v1, _)) = self.view.get(&node).cloned() else { return };
        if !v1.contains(&node) || !self.live.contains(&node) {
            return;
        }
        let others: Vec<u32> = self.live.iter().cloned().filter(|m| *m != node).collect();
        for m in others {
            let Some((v2, _)) = self.view.get(&m).cloned() else { continue };
            if !v2.contains(&m) {
                continue;
            }
            self.counters.view_pairs_checked += 1;
            let union: BTreeSet<u32> = v1.union(&v2).cloned().collect();
            if maj(v1.len()) + maj(v2.len()) <= union.len() {
                let (a, b) = if v1.len() <= v2.len() { (v1.len(), v2.len()) } else { (v2.len(), v1.len()) };
                self.find(
                    t,
                    "C26",
                    format!("disjoint-quorums-possible:{a}-voter-view-vs-{b}-voter-view"),
                    json!({"node_a": node, "voters_a": v1, "node_b": m, "voters_b": v2, "union": union,
                           "majority_a": maj(v1.len()), "majority_b": maj(v2.len())}),
                );
            }
        }
    }

    /// C27: a successful join reply only after AddNode(node) is committed on the answering leader,
    /// and never for a node that already was a member when it asked.
    fn on_join_success(&mut self, t: u64, node: u32, leader: u32) {
        if self.join_req_existing.get(&(node, leader)).cloned().unwrap_or(false) {
            self.find(t, "C27", "join-of-existing-member-answered-success", json!({"node": node, "leader": leader, "leader_view": self.view.get(&leader)}));
        }
        let commit = self.commit_index.get(&leader).cloned().unwrap_or(0);
        let Some(ep) = self.net.as_ref().and_then(|n| n.endpoint(leader)) else { return };
        let (first, last) = (ep.log.first().max(1), ep.log.last());
        let mut found_at: Option<u64> = None;
        let mut i = last;
        let mut steps = 0;
        while i >= first && steps < 20_000 {
            if let Some((kind, ids)) = ep.log.conf_change(i)
                && kind == "add"
                && ids.contains(&node)
            {
                found_at = Some(i);
                break;
            }
            if i == 0 {
                break;
            }
            i -= 1;
            steps += 1;
        }
        match found_at {
            Some(idx) if idx <= commit => {}
            Some(idx) => {
                self.find(t, "C27", "join-success-before-addnode-committed", json!({"node": node, "leader": leader, "addnode_index": idx, "leader_commit": commit}));
            }
            None => {
                // entry may have been compacted already (first > 1): only report when the whole
                // log is visible
                if first <= 1 {
                    self.find(t, "C27", "join-success-without-addnode-entry", json!({"node": node, "leader": leader, "log": [first, last]}));
                }
            }
        }
    }

    /// C27: learner -> voter only through a committed promotion that names the node.
    fn on_learner_promoted(&mut self, t: u64, node: u32, to: i32) {
        let commit = self.commit_index.get(&node).cloned().unwrap_or(0);
        let Some(ep) = self.net.as_ref().and_then(|n| n.endpoint(node)) else { return };
        let (first, last) = (ep.log.first().max(1), ep.log.last());
        // every promotion entry in the node's log that names it (a node may be named by more
        // than one: a later batch can repeat it); the promotion is justified by any of them
        // that is committed
        let mut found: Vec<u64> = Vec::new();
        let mut i = last;
        let mut steps = 0;
        while i >= first && steps < 20_000 {
            if let Some((kind, ids)) = ep.log.conf_change(i)
                && kind == "promote"
                && ids.contains(&node)
            {
                found.push(i);
            }
            if i == 0 {
                break;
            }
            i -= 1;
            steps += 1;
        }
        let justified = found.iter().any(|i| *i <= commit || self.committed.contains_key(i));
        match found.iter().min() {
            Some(_) if justified => {}
            Some(idx) => {
                self.find(t, "C27", "learner-became-voter-before-promotion-committed", json!({"node": node, "to_role": to, "promotion_index": idx, "promotion_entries_naming_the_node": found, "node_commit": commit}));
            }
            None => {
                if first <= 1 {
                    self.find(t, "C27", "learner-became-voter-without-promotion-entry", json!({"node": node, "to_role": to, "log": [first, last], "node_commit": commit}));
                }
            }
        }
    }

    /// C30: the client gave up waiting although the node it asked stayed up the whole time.
    fn on_client_timeout(&mut self, t: u64, op: u64) {
        let Some(bound) = self.reply_bound_ms else { return };
        let Some((c, node, what, it)) = self.ops.get(&op).cloned() else { return };
        if t.saturating_sub(it) < bound {
            return;
        }
        // only requests that go through the node's command channel carry a server-side deadline
        let via_cmd = match &what {
            ClientOp::Read { path, .. } => *path == "cmd",
            ClientOp::Put { .. } | ClientOp::Del { .. } | ClientOp::Cas { .. } | ClientOp::Scan { .. } => true,
            _ => false,
        };
        if !via_cmd || !self.live.contains(&node) || self.restarted_between(node, it, t) {
            return;
        }
        if !self.loop_started.get(&node).is_some_and(|ls| *ls <= it) {
            return;
        }
        let mut kind: String = match &what {
            ClientOp::Read { .. } => "read".into(),
            ClientOp::Scan { .. } => "scan".into(),
            _ => "write".into(),
        };
        // mechanism, when it can be told from what was observed
        let inc = self.incarnation.get(&node).cloned().unwrap_or(0);
        let applied_here = unique_value(&what)
            .and_then(|v| self.applied_values.get(&v).cloned())
            .is_some_and(|a| a.iter().any(|x| x.0 == node));
        let backlog = self.commit_index.get(&node).cloned().unwrap_or(0)
            > self.last_applied.get(&(node, inc)).cloned().unwrap_or(0);
        // candidate when the request arrived (it may have won an election since)
        let is_candidate = self.roles.get(&node).is_some_and(|r| r.0 == 2)
            || self.role_hist.get(&node).is_some_and(|h| h.iter().rev().find(|(rt, _)| *rt <= it).is_some_and(|(_, r)| *r == 2));
        if applied_here {
            kind.push_str(":applied-on-the-answering-node-but-never-answered");
        } else if is_candidate {
            // the node sits in vote rounds: its loop awaits the whole round (retries included)
            // and, the election timer having expired meanwhile, starts the next one at once
            // (tick has priority over client commands), so queued commands are never looked at
            kind.push_str(":candidate-in-back-to-back-vote-rounds");
        } else if backlog {
            // committed entries are waiting for the answering node's state machine
            kind.push_str(":answering-node-apply-backlog");
        }
        self.find(
            t,
            "C30",
            format!("no-reply-within-deadline[{kind}]"),
            json!({"op": op, "client": c, "node": node, "request": super::record::op_json(&what), "invoked_at": it, "waited_ms": t - it,
                   "node_role_now": self.roles.get(&node)}),
        );
    }

    /// C33 (a)/(b): called at checkpoints with the node's purge boundary (first index - 1) and
    /// the last included index of the snapshot the node's state machine reports holding.
    pub fn purge_check(&mut self, t: u64, node: u32, inc: u32, boundary: u64, snapshot_upto: Option<u64>) {
        if boundary == 0 {
            return;
        }
        self.counters.purge_checks += 1;
        let seen = self.purge_seen.get(&(node, inc)).cloned().unwrap_or(0);
        if boundary <= seen {
            return;
        }
        self.purge_seen.insert((node, inc), boundary);
        let max_committed = self.committed.keys().next_back().cloned().unwrap_or(0);
        if boundary > max_committed {
            self.find(t, "C33", "purged-entries-that-are-not-committed", json!({"node": node, "inc": inc, "purged_upto": boundary, "highest_committed_index": max_committed}));
        }
        match snapshot_upto {
            Some(s) if s >= boundary => {}
            other => {
                // consequence of the open C06 finding (a follower installs a pushed snapshot that
                // is older than what it already has): the node had covered this purge with a
                // snapshot of its own and the install replaced it by an older one
                let replaced_by_older = matches!((other, self.snapshots_held.get(&(node, inc))), (Some(s), Some((best, Some(li)))) if *best >= boundary && *li == s);
                let sig = if inc > 0 && other.is_none() {
                    "log-purged-but-no-snapshot-held:after-restart"
                } else if other.is_none() {
                    "log-purged-but-no-snapshot-held"
                } else if replaced_by_older {
                    "log-purged-beyond-held-snapshot:own-newer-snapshot-replaced-by-an-older-installed-one"
                } else if inc > 0 && seen == 0 {
                    // the state a restarted node comes back with, before it did anything
                    "log-purged-beyond-held-snapshot:state-recovered-at-restart"
                } else {
                    "log-purged-beyond-held-snapshot"
                };
                self.find(t, "C33", sig, json!({"node": node, "inc": inc, "purged_upto": boundary, "snapshot_last_included": other}));
            }
        }
    }

    /// End-of-run (quiescent) state oracle: the node's key-value content must equal the reference
    /// model folded once, in index order, over the agreed applied sequence up to the node's own
    /// `last_applied`. Decides C16 for nodes that installed a snapshot in this incarnation, C15 for
    /// nodes that restarted, C06 otherwise.
    pub fn final_state_check(&mut self, t: u64, node: u32, inc: u32, last_applied: u64, content: &[(Vec<u8>, Option<Vec<u8>>)]) {
        let key = (node, inc);
        if self.tainted.contains(&key) {
            return;
        }
        self.final_state_checks += 1;
        let mut model = crate::model::KvRef::default();
        for (_, c) in self.applied_cmds.range(..=last_applied) {
            model.apply(c);
        }
        let mut diffs = Vec::new();
        for (k, v) in content {
            let exp = model.get(k).cloned();
            if &exp != v {
                diffs.push(json!({"key": show_bytes(k), "node_has": v.as_ref().map(|b| show_bytes(b)), "exactly_once_reference": exp.as_ref().map(|b| show_bytes(b))}));
            }
        }
        if diffs.is_empty() {
            return;
        }
        let installed = self.installed_upto.get(&key).cloned();
        let (prop, sig): (&'static str, String) = if installed.is_some() {
            let ahead = self.content_ahead.contains_key(&key);
            ("C16", if ahead { "state-after-snapshot-install-and-replay-differs:snapshot-content-ahead-of-boundary".into() } else { "state-after-snapshot-install-and-replay-differs".into() })
        } else if inc > 0 {
            ("C15", "state-after-restart-differs-from-exactly-once-state".into())
        } else {
            ("C06", "final-state-differs-from-applied-sequence".into())
        };
        self.find(t, prop, sig, json!({"node": node, "inc": inc, "last_applied": last_applied, "installed_snapshot_upto": installed, "differences": diffs}));
    }

    /// C28 (quiescent form): after heal + quiet every restarted node's membership view equals
    /// the view of the nodes that never restarted / of the leader.
    pub fn finish_membership(&mut self, t: u64, leader: Option<u32>, initial_voters: &BTreeSet<u32>) {
        let Some(l) = leader else { return };
        let Some(reference) = self.view.get(&l).cloned() else { return };
        let live: Vec<u32> = self.live.iter().cloned().collect();
        // the cluster must be quiescent: every never-restarted live node agrees with the leader
        for n in &live {
            if !self.restarted.get(n).is_some_and(|r| r.0 > 0)
                && self.view.get(n).is_some_and(|v| *v != reference)
            {
                return;
            }
        }
        for n in live {
            let Some((cnt, before)) = self.restarted.get(&n).cloned() else { continue };
            if cnt == 0 {
                continue;
            }
            let Some(mine) = self.view.get(&n).cloned() else { continue };
            if mine != reference {
                let fell_back = mine.0 == *initial_voters && reference.0 != *initial_voters;
                let sig = if fell_back { "view-after-restart-fell-back-to-initial-configuration" } else { "view-after-restart-differs-from-committed-configuration" };
                self.find(
                    t,
                    "C28",
                    sig,
                    json!({"node": n, "restarts": cnt, "view_now": {"voters": mine.0, "learners": mine.1},
                           "view_before_last_restart": before.map(|b| json!({"voters": b.0, "learners": b.1})),
                           "leader": l, "leader_view": {"voters": reference.0, "learners": reference.1}}),
                );
            }
        }
    }

    /// Checkpoint: pairwise log comparison and committed-entry retention.
    /// `logs`: node -> (inc, first, last, [(index, term, hash)])
    pub fn checkpoint(&mut self, t: u64, logs: &BTreeMap<u32, (u32, u64, u64, Vec<(u64, u64, u64)>)>) {
        // C08 (b): gap-free logs
        for (n, (_inc, first, last, ents)) in logs {
            let mut expect = ents.first().map(|e| e.0).unwrap_or(0);
            for e in ents {
                if e.0 != expect {
                    self.find(t, "C08", "gap-in-node-log", json!({"node": n, "expected_index": expect, "found_index": e.0, "first": first, "last": last}));
                    break;
                }
                expect += 1;
            }
        }
        // C04: log matching
        let ids: Vec<u32> = logs.keys().cloned().collect();
        for a in 0..ids.len() {
            for b in a + 1..ids.len() {
                let la = &logs[&ids[a]].3;
                let lb = &logs[&ids[b]].3;
                let mb: HashMap<u64, (u64, u64)> = lb.iter().map(|e| (e.0, (e.1, e.2))).collect();
                // highest index where both hold the same term
                let mut same_term_at: Option<u64> = None;
                for e in la.iter().rev() {
                    if let Some((tb, _)) = mb.get(&e.0)
                        && *tb == e.1
                    {
                        same_term_at = Some(e.0);
                        break;
                    }
                }
                if let Some(top) = same_term_at {
                    for e in la.iter().filter(|e| e.0 <= top) {
                        if let Some((tb, hb)) = mb.get(&e.0)
                            && (*tb != e.1 || *hb != e.2)
                        {
                            let sig = if *tb == e.1 { "same-index-term-different-payload" } else { "prefix-differs-below-matching-entry" };
                            self.find(
                                t,
                                "C04",
                                sig,
                                json!({"nodes": [ids[a], ids[b]], "index": e.0, "terms": [e.1, tb], "agree_at": top}),
                            );
                            break;
                        }
                    }
                }
            }
        }
        // C05 (2): a live node that held a committed entry keeps it (unless compacted)
        for (n, (inc, first, last, ents)) in logs {
            let key = (*n, *inc);
            let mut top_held = 0u64;
            for e in ents {
                if let Some((ct, ch, _, _)) = self.committed.get(&e.0) {
                    if *ct == e.1 && *ch == e.2 {
                        top_held = top_held.max(e.0);
                    } else {
                        // holds a different entry at a committed index: only a violation if it
                        // previously held the committed one, or claims it committed itself
                        let prev = self.held_committed.get(&key).cloned().unwrap_or(0);
                        let own_commit = self.commit_index.get(n).cloned().unwrap_or(0);
                        if prev >= e.0 {
                            self.find(t, "C05", "node-overwrote-committed-entry", json!({"node": n, "index": e.0, "held_before_upto": prev, "now_term": e.1, "committed_term": ct}));
                            break;
                        } else if own_commit >= e.0 {
                            self.find(t, "C05", "node-commit-covers-non-committed-entry", json!({"node": n, "index": e.0, "node_commit_index": own_commit, "now_term": e.1, "committed_term": ct}));
                            break;
                        }
                    }
                }
            }
            let prev = self.held_committed.get(&key).cloned().unwrap_or(0);
            if prev > *last && prev >= *first && *last + 1 >= first.max(&1).clone() {
                // log got shorter than a committed entry it held (not by compaction: compaction
                // raises `first`, it does not lower `last`)
                self.find(t, "C05", "node-discarded-committed-entry", json!({"node": n, "held_committed_upto": prev, "first": first, "last": last}));
            }
            if top_held > prev {
                self.held_committed.insert(key, top_held);
            }
        }
    }

    /// end-of-run checks that need the whole history
    pub fn finish(&mut self, t: u64) {
        // C14: rejected writes never applied
        let rejected: Vec<(u64, Vec<u8>, String)> = self
            .results
            .iter()
            .filter_map(|(op, (r, _))| match r {
                ClientResult::Rejected { why } => {
                    self.ops.get(op).and_then(|(_, _, w, _)| unique_value(w)).map(|v| (*op, v, why.clone()))
                }
                _ => None,
            })
            .collect();
        for (op, v, why) in rejected {
            if let Some(app) = self.applied_values.get(&v).cloned() {
                let kind = if why.contains("ResourceExhausted") {
                    "backpressure-rejected-write-applied"
                } else if why.contains("InvalidArgument") {
                    "invalid-rejected-write-applied"
                } else {
                    "not-leader-rejected-write-applied"
                };
                self.find(
                    t,
                    "C14",
                    kind,
                    json!({"op": op, "value": show_bytes(&v), "why": why, "applied": app.iter().map(|a| json!({"node": a.0, "index": a.1})).collect::<Vec<_>>()}),
                );
            }
        }
    }

    pub fn signature(&self) -> u64 {
        let mut bytes = Vec::with_capacity(self.sig_trace.len() * 8);
        for v in &self.sig_trace {
            bytes.extend_from_slice(&v.to_le_bytes());
        }
        fnv64(&bytes)
    }
}

impl Default for Online {
    fn default() -> Self {
        Self::new()
    }
}
