//! Simulated network + `Transport` implementation.
//!
//! Every RPC is routed to the *real* inbound channel of the target node (the same
//! `InboundEvent` the gRPC service would enqueue) and the reply is relayed back. Per directed
//! link the fault plan decides latency, blackholing, loss, duplication and reordering.
//!
//! Tier S (stream-faithful): what gRPC over HTTP/2 can do. Unary RPCs run through the real
//! `grpc_task_with_timeout_and_exponential_backoff`; a replication stream is FIFO and loss-free
//! while it lives but can be delayed, stalled or broken at any point.
//! Tier N (arbitrary network): additionally reorders, duplicates and drops individual messages
//! inside a live stream.

use std::collections::BTreeMap;
use std::collections::BTreeSet;
use std::collections::HashSet;
use std::marker::PhantomData;
use std::sync::Arc;
use std::sync::Mutex;
use std::time::Duration;

use async_trait::async_trait;
use d_engine_core::AppendResult;
use d_engine_core::BackoffPolicy;
use d_engine_core::ClusterUpdateResult;
use d_engine_core::Error;
use d_engine_core::InboundEvent;
use d_engine_core::InstallSnapshotBackoffPolicy;
use d_engine_core::MaybeCloneOneshot;
use d_engine_core::Membership;
use d_engine_core::NetworkError;
use d_engine_core::RaftNodeConfig;
use d_engine_core::RaftOneshot;
use d_engine_core::ReplicationStream;
use d_engine_core::Result;
use d_engine_core::RetryPolicies;
use d_engine_core::SnapshotConfig;
use d_engine_core::StateMachineHandler;
use d_engine_core::Transport;
use d_engine_core::TypeConfig;
use d_engine_core::VoteResult;
use d_engine_core::alias::MOF;
use d_engine_core::alias::SMHOF;
use d_engine_core::grpc_task_with_timeout_and_exponential_backoff;
use d_engine_proto::server::cluster::ClusterConfChangeRequest;
use d_engine_proto::server::cluster::JoinRequest;
use d_engine_proto::server::cluster::JoinResponse;
use d_engine_proto::server::cluster::LeaderDiscoveryRequest;
use d_engine_proto::server::cluster::LeaderDiscoveryResponse;
use d_engine_proto::server::election::VoteRequest;
use d_engine_proto::server::election::VoteResponse;
use d_engine_proto::server::replication::AppendEntriesRequest;
use d_engine_proto::server::replication::AppendEntriesResponse;
use d_engine_proto::server::replication::append_entries_response;
use d_engine_proto::server::storage::SnapshotAck;
use d_engine_proto::server::storage::SnapshotChunk;
use d_engine_proto::server::storage::SnapshotMetadata;
use futures::FutureExt;
use futures::StreamExt;
use futures::stream::FuturesUnordered;
use tokio::sync::mpsc;
use tokio::time::Instant;
use tonic::Status;

use super::record::AeKind;
use super::record::Ev;
use super::record::Recorder;
use crate::util::Rng;

/// Type-erased read access to a node's raft log (for truthfulness / matching oracles).
pub trait LogView: Send + Sync {
    /// (term, payload hash) of the entry at `idx`, if held
    fn sig(&self, idx: u64) -> Option<(u64, u64)>;
    fn first(&self) -> u64;
    fn last(&self) -> u64;
    fn term_of(&self, idx: u64) -> Option<u64>;
    /// membership change carried by the entry at `idx`: (kind, node ids)
    fn conf_change(&self, idx: u64) -> Option<(&'static str, Vec<u32>)>;
}

#[derive(Clone)]
pub struct Endpoint {
    /// the node's data directory and where a crash image of this incarnation goes
    pub dir: std::path::PathBuf,
    pub image_dir: std::path::PathBuf,
    pub inc: u32,
    pub event_tx: mpsc::Sender<InboundEvent>,
    pub cfg: Arc<RaftNodeConfig>,
    pub log: Arc<dyn LogView>,
}

#[derive(Clone, Debug)]
pub struct Faults {
    /// directed links on which nothing gets through
    pub blocked: HashSet<(u32, u32)>,
    /// blocked links fail fast (connection refused) instead of blackholing
    pub refuse: bool,
    pub delay_min: u64,
    pub delay_max: u64,
    /// extra per-directed-link delay (ms)
    pub link_delay: BTreeMap<(u32, u32), (u64, u64)>,
    /// tier N knobs (percent)
    pub drop_pct: u64,
    pub dup_pct: u64,
    pub reorder: bool,
}

impl Default for Faults {
    fn default() -> Self {
        Faults {
            blocked: HashSet::new(),
            refuse: false,
            delay_min: 1,
            delay_max: 3,
            link_delay: BTreeMap::new(),
            drop_pct: 0,
            dup_pct: 0,
            reorder: false,
        }
    }
}

pub struct NetInner {
    pub endpoints: BTreeMap<u32, Endpoint>,
    pub faults: Faults,
    pub rng: Rng,
    pub next_id: u64,
    /// bumped whenever a link set changes so that live streams notice
    pub epoch: u64,
    /// vote-window crashes: percentage of granted votes after which the voter "dies" the very
    /// moment its reply has left (disk image taken right then, node cut off from everybody)
    pub vote_crash_pct: u64,
    /// nodes whose crash image has been taken and that are dead to the outside world; the
    /// scenario loop completes the crash (abort tasks, re-point directories) at its next step
    pub dead: HashSet<u32>,
    pub staged: Vec<u32>,
}

#[derive(Clone)]
pub struct Net {
    pub inner: Arc<Mutex<NetInner>>,
    pub rec: Recorder,
    pub t0: Instant,
}

impl Net {
    pub fn new(rec: Recorder, seed: u64, t0: Instant) -> Self {
        Net {
            inner: Arc::new(Mutex::new(NetInner {
                endpoints: BTreeMap::new(),
                faults: Faults::default(),
                rng: Rng::new(seed),
                next_id: 1,
                epoch: 0,
                vote_crash_pct: 0,
                dead: HashSet::new(),
                staged: Vec::new(),
            })),
            rec,
            t0,
        }
    }
    pub fn now(&self) -> u64 {
        Instant::now().duration_since(self.t0).as_millis() as u64
    }
    pub fn log(&self, ev: Ev) {
        self.rec.push(self.now(), ev);
    }
    pub fn register(&self, id: u32, ep: Endpoint) {
        self.inner.lock().unwrap().endpoints.insert(id, ep);
    }
    pub fn unregister(&self, id: u32) {
        let mut g = self.inner.lock().unwrap();
        g.endpoints.remove(&id);
        g.epoch += 1;
    }
    pub fn endpoint(&self, id: u32) -> Option<Endpoint> {
        self.inner.lock().unwrap().endpoints.get(&id).cloned()
    }
    pub fn set_faults(&self, f: impl FnOnce(&mut Faults)) {
        let mut g = self.inner.lock().unwrap();
        f(&mut g.faults);
        g.epoch += 1;
    }
    pub fn blocked(&self, from: u32, to: u32) -> bool {
        let g = self.inner.lock().unwrap();
        g.faults.blocked.contains(&(from, to)) || g.dead.contains(&from) || g.dead.contains(&to)
    }

    /// Crash `voter` at this very instant as far as anybody can tell: copy its data directory
    /// now (everything written so far, nothing later), cut it off. Returns false if not done.
    fn stage_crash(&self, voter: u32) -> bool {
        let ep = {
            let g = self.inner.lock().unwrap();
            if !g.dead.is_empty() || !g.staged.is_empty() {
                return false; // one at a time: never take down more than a minority
            }
            match g.endpoints.get(&voter) {
                Some(e) => e.clone(),
                None => return false,
            }
        };
        if super::cluster::copy_dir(&ep.dir, &ep.image_dir).is_err() {
            return false;
        }
        {
            let mut g = self.inner.lock().unwrap();
            g.dead.insert(voter);
            g.staged.push(voter);
            g.epoch += 1;
        }
        // from this instant the node is crashed for every observer, monitors included: whatever
        // the still-scheduled tasks of the old incarnation do until the scenario loop aborts
        // them is invisible to the rest of the cluster and discarded at restart
        self.log(Ev::Crash { node: voter, inc: ep.inc });
        true
    }

    pub fn take_staged(&self) -> Vec<u32> {
        std::mem::take(&mut self.inner.lock().unwrap().staged)
    }

    pub fn clear_dead(&self, id: u32) {
        self.inner.lock().unwrap().dead.remove(&id);
    }
    fn refuse(&self) -> bool {
        self.inner.lock().unwrap().faults.refuse
    }
    fn next_id(&self) -> u64 {
        let mut g = self.inner.lock().unwrap();
        let id = g.next_id;
        g.next_id += 1;
        id
    }
    pub fn delay(&self, from: u32, to: u32) -> Duration {
        let mut g = self.inner.lock().unwrap();
        let (lo, hi) = (g.faults.delay_min, g.faults.delay_max);
        let mut d = g.rng.range(lo, hi);
        if let Some((a, b)) = g.faults.link_delay.get(&(from, to)).cloned() {
            d += g.rng.range(a, b);
        }
        Duration::from_millis(d)
    }
    fn roll(&self, pct: u64) -> bool {
        if pct == 0 {
            return false;
        }
        self.inner.lock().unwrap().rng.chance(pct, 100)
    }
    fn tier_n(&self) -> (u64, u64, bool) {
        let g = self.inner.lock().unwrap();
        (g.faults.drop_pct, g.faults.dup_pct, g.faults.reorder)
    }

    /// Request leg of a unary RPC. Ok(endpoint) when the request reaches a live target.
    async fn request_leg(&self, from: u32, to: u32) -> std::result::Result<Endpoint, Status> {
        if self.blocked(from, to) {
            if self.refuse() {
                tokio::time::sleep(Duration::from_millis(1)).await;
                return Err(Status::unavailable("sim: connection refused"));
            }
            futures::future::pending::<()>().await;
        }
        tokio::time::sleep(self.delay(from, to)).await;
        if self.blocked(from, to) {
            futures::future::pending::<()>().await;
        }
        match self.endpoint(to) {
            Some(ep) => Ok(ep),
            None => Err(Status::unavailable("sim: peer down")),
        }
    }

    /// Reply leg of a unary RPC (target -> caller).
    async fn reply_leg(&self, from: u32, to: u32) {
        if self.blocked(from, to) {
            futures::future::pending::<()>().await;
        }
        tokio::time::sleep(self.delay(from, to)).await;
        if self.blocked(from, to) {
            futures::future::pending::<()>().await;
        }
    }

    pub async fn vote_rpc(
        &self,
        from: u32,
        to: u32,
        req: VoteRequest,
    ) -> std::result::Result<tonic::Response<VoteResponse>, Status> {
        self.log(Ev::VoteReq {
            from,
            to,
            term: req.term,
            last_index: req.last_log_index,
            last_term: req.last_log_term,
        });
        let ep = self.request_leg(from, to).await?;
        let (tx, rx) = MaybeCloneOneshot::new();
        ep.event_tx
            .send(InboundEvent::ReceiveVoteRequest(req, tx))
            .await
            .map_err(|_| Status::internal("Event channel closed"))?;
        let server_timeout = Duration::from_millis(ep.cfg.raft.election.election_timeout_min);
        let resp = match tokio::time::timeout(server_timeout, rx).await {
            Ok(Ok(Ok(r))) => r,
            Ok(Ok(Err(s))) => return Err(s),
            Ok(Err(_)) => return Err(Status::deadline_exceeded("RPC channel closed")),
            Err(_) => return Err(Status::deadline_exceeded("RPC timeout exceeded")),
        };
        self.log(Ev::VoteReply {
            voter: to,
            voter_inc: ep.inc,
            candidate: from,
            req_term: req.term,
            granted: resp.vote_granted,
            reply_term: resp.term,
        });
        // vote-window crash: the grant has left the voter; kill the voter right now
        let mut crash_after_reply = false;
        if resp.vote_granted {
            let pct = self.inner.lock().unwrap().vote_crash_pct;
            if self.roll(pct) {
                crash_after_reply = true;
            }
        }
        if crash_after_reply {
            // the reply is on the wire already: deliver it, then the voter is gone
            tokio::time::sleep(self.delay(to, from)).await;
            if self.stage_crash(to) {
                self.log(Ev::Fault { desc: format!("vote-window crash of {to}: image taken right after its grant to {from} for term {} left", req.term) });
            }
            return Ok(tonic::Response::new(resp));
        }
        self.reply_leg(to, from).await;
        Ok(tonic::Response::new(resp))
    }

    pub async fn join_rpc(
        &self,
        from: u32,
        to: u32,
        req: JoinRequest,
    ) -> std::result::Result<tonic::Response<JoinResponse>, Status> {
        self.log(Ev::JoinReq { from, to });
        let ep = self.request_leg(from, to).await?;
        let (tx, rx) = MaybeCloneOneshot::new();
        ep.event_tx
            .send(InboundEvent::JoinCluster(req.clone(), tx))
            .await
            .map_err(|_| Status::internal("Event channel closed"))?;
        let server_timeout =
            Duration::from_millis(ep.cfg.raft.general_raft_timeout_duration_in_ms);
        let resp = match tokio::time::timeout(server_timeout, rx).await {
            Ok(Ok(Ok(r))) => r,
            Ok(Ok(Err(s))) => {
                self.log(Ev::JoinReply { node: req.node_id, leader: to, success: false });
                return Err(s);
            }
            Ok(Err(_)) => return Err(Status::deadline_exceeded("RPC channel closed")),
            Err(_) => return Err(Status::deadline_exceeded("RPC timeout exceeded")),
        };
        self.log(Ev::JoinReply { node: req.node_id, leader: to, success: resp.success });
        self.reply_leg(to, from).await;
        Ok(tonic::Response::new(resp))
    }

    pub async fn discover_rpc(
        &self,
        from: u32,
        to: u32,
        req: LeaderDiscoveryRequest,
    ) -> Option<LeaderDiscoveryResponse> {
        let ep = self.request_leg(from, to).await.ok()?;
        let (tx, rx) = MaybeCloneOneshot::new();
        ep.event_tx.send(InboundEvent::DiscoverLeader(req, tx)).await.ok()?;
        let server_timeout =
            Duration::from_millis(ep.cfg.raft.general_raft_timeout_duration_in_ms);
        let resp = match tokio::time::timeout(server_timeout, rx).await {
            Ok(Ok(Ok(r))) => r,
            _ => return None,
        };
        self.reply_leg(to, from).await;
        Some(resp)
    }

    fn describe_ae(&self, id: u64, from: u32, to: u32, req: &AppendEntriesRequest) -> Ev {
        let first = req.entries.first().map(|e| e.index).unwrap_or(0);
        let mut contiguous = true;
        let mut expect = req.prev_log_index + 1;
        for e in &req.entries {
            if e.index != expect {
                contiguous = false;
            }
            expect = e.index + 1;
        }
        Ev::AeSend {
            id,
            from,
            to,
            term: req.term,
            prev_index: req.prev_log_index,
            prev_term: req.prev_log_term,
            first,
            n: req.entries.len() as u64,
            commit: req.leader_commit_index,
            contiguous,
        }
    }

    fn describe_reply(
        &self,
        id: u64,
        rid: u64,
        follower: u32,
        leader: u32,
        resp: &AppendEntriesResponse,
        follower_log: &Arc<dyn LogView>,
    ) -> Ev {
        let (kind, match_index) = match &resp.result {
            Some(append_entries_response::Result::Success(s)) => {
                (AeKind::Success, s.last_match.map(|l| l.index).unwrap_or(0))
            }
            Some(append_entries_response::Result::Conflict(_)) => (AeKind::Conflict, 0),
            Some(append_entries_response::Result::HigherTerm(_)) => (AeKind::HigherTerm, 0),
            None => (AeKind::Error, 0),
        };
        // truthfulness of a success ack: follower's log equals the leader's up to match
        let truthful = if kind == AeKind::Success && match_index > 0 {
            self.endpoint(leader).map(|lep| {
                let lo = follower_log.first().max(lep.log.first()).max(1);
                if follower_log.last() < match_index || lep.log.last() < match_index {
                    // claims an index one side does not even hold (purged prefixes are fine)
                    return follower_log.last() >= match_index
                        && lep.log.last() >= match_index;
                }
                let mut ok = true;
                let mut i = match_index;
                // compare a bounded window ending at match (older prefix is covered by
                // earlier acks and by the pairwise log-matching checkpoint oracle)
                let mut steps = 0;
                while i >= lo && steps < 64 {
                    if follower_log.sig(i) != lep.log.sig(i) {
                        ok = false;
                        break;
                    }
                    if i == 0 {
                        break;
                    }
                    i -= 1;
                    steps += 1;
                }
                ok
            })
        } else {
            None
        };
        Ev::AeReply { id, rid, follower, leader, kind, term: resp.term, match_index, truthful }
    }
}

pub struct SimTransport<T: TypeConfig> {
    pub my_id: u32,
    pub net: Net,
    _m: PhantomData<T>,
}

impl<T: TypeConfig> SimTransport<T> {
    pub fn new(my_id: u32, net: Net) -> Self {
        SimTransport { my_id, net, _m: PhantomData }
    }
}

#[async_trait]
impl<T: TypeConfig> Transport<T> for SimTransport<T> {
    async fn send_cluster_update(
        &self,
        _req: ClusterConfChangeRequest,
        _retry: &RetryPolicies,
        _membership: Arc<MOF<T>>,
    ) -> Result<ClusterUpdateResult> {
        Err(NetworkError::EmptyPeerList { request_type: "send_cluster_update" }.into())
    }

    async fn send_append_requests(
        &self,
        _requests: Vec<(u32, AppendEntriesRequest)>,
        _retry: &RetryPolicies,
        _membership: Arc<MOF<T>>,
        _response_compress_enabled: bool,
    ) -> Result<AppendResult> {
        Err(NetworkError::EmptyPeerList { request_type: "send_append_requests" }.into())
    }

    async fn send_vote_requests(
        &self,
        req: VoteRequest,
        retry: &RetryPolicies,
        membership: Arc<MOF<T>>,
    ) -> Result<VoteResult> {
        // mirrors GrpcTransport::send_vote_requests
        let peers = membership.voters().await;
        if peers.is_empty() {
            return Err(NetworkError::EmptyPeerList { request_type: "send_vote_requests" }.into());
        }
        let mut tasks = FuturesUnordered::new();
        let mut peer_ids = HashSet::new();
        for peer in peers {
            let peer_id = peer.id;
            if peer_id == self.my_id || peer_ids.contains(&peer_id) {
                continue;
            }
            peer_ids.insert(peer_id);
            let net = self.net.clone();
            let my_id = self.my_id;
            let closure = move || {
                let net = net.clone();
                async move { net.vote_rpc(my_id, peer_id, req).await }
            };
            let policy = retry.election;
            let h = tokio::spawn(async move {
                grpc_task_with_timeout_and_exponential_backoff("request_vote", closure, policy)
                    .await
                    .map(|r| (peer_id, r.into_inner()))
            });
            tasks.push(h.boxed());
        }
        let mut responses = Vec::new();
        let mut granted_by = Vec::new();
        while let Some(result) = tasks.next().await {
            match result {
                Ok(Ok((pid, r))) => {
                    if r.vote_granted {
                        granted_by.push(pid);
                    }
                    responses.push(Ok(r))
                }
                Ok(Err(e)) => responses.push(Err(e)),
                Err(e) => responses.push(Err(Error::from(NetworkError::TaskFailed(e)))),
            }
        }
        let mut peers_sorted: Vec<u32> = peer_ids.iter().cloned().collect();
        peers_sorted.sort();
        granted_by.sort();
        self.net.log(Ev::VoteOutcome {
            candidate: self.my_id,
            term: req.term,
            granted_by,
            peers: peers_sorted,
        });
        Ok(VoteResult { peer_ids, responses })
    }

    async fn join_cluster(
        &self,
        leader_id: u32,
        request: JoinRequest,
        retry: BackoffPolicy,
        _membership: Arc<MOF<T>>,
    ) -> Result<JoinResponse> {
        let net = self.net.clone();
        let my_id = self.my_id;
        let closure = move || {
            let net = net.clone();
            let req = request.clone();
            async move { net.join_rpc(my_id, leader_id, req).await }
        };
        let r = grpc_task_with_timeout_and_exponential_backoff("join_cluster", closure, retry).await?;
        Ok(r.into_inner())
    }

    async fn discover_leader(
        &self,
        request: LeaderDiscoveryRequest,
        _rpc_enable_compression: bool,
        membership: Arc<MOF<T>>,
    ) -> Result<Vec<LeaderDiscoveryResponse>> {
        let ids: Vec<u32> = membership.voters().await.iter().map(|m| m.id).collect();
        let mut futs = FuturesUnordered::new();
        for id in ids {
            let net = self.net.clone();
            let req = request.clone();
            let my = self.my_id;
            futs.push(async move {
                tokio::time::timeout(Duration::from_millis(2000), net.discover_rpc(my, id, req))
                    .await
                    .ok()
                    .flatten()
            });
        }
        let mut out = Vec::new();
        while let Some(r) = futs.next().await {
            if let Some(r) = r {
                out.push(r);
            }
        }
        Ok(out)
    }

    async fn send_append_request(
        &self,
        _peer_id: u32,
        _request: AppendEntriesRequest,
        _retry: &RetryPolicies,
        _membership: Arc<MOF<T>>,
        _response_compress_enabled: bool,
    ) -> Result<AppendEntriesResponse> {
        Err(NetworkError::ResponseChannelClosed.into())
    }

    async fn send_snapshot(
        &self,
        peer_id: u32,
        metadata: SnapshotMetadata,
        state_machine_handler: Arc<SMHOF<T>>,
        _membership: Arc<MOF<T>>,
        _config: SnapshotConfig,
    ) -> Result<()> {
        let net = self.net.clone();
        let my = self.my_id;
        let li = metadata.last_included.unwrap_or_default();
        let res: Result<()> = async {
            // a gRPC channel gives up on a blackholed peer (connect timeout); without this the
            // transfer would never complete and the worker's `snapshot_in_progress` flag would
            // keep every later AppendEntries for that peer from being sent
            let ep = match tokio::time::timeout(Duration::from_millis(2000), net.request_leg(my, peer_id)).await {
                Ok(r) => r.map_err(|s| NetworkError::TonicStatusError(Box::new(s)))?,
                Err(_) => {
                    return Err(NetworkError::TonicStatusError(Box::new(Status::unavailable("sim: connect timeout"))).into());
                }
            };
            let mut data_stream = state_machine_handler.load_snapshot_data(metadata).await?;
            let (tx, rx) = mpsc::channel::<SnapshotChunk>(32);
            let (resp_tx, resp_rx) = MaybeCloneOneshot::new();
            ep.event_tx
                .send(InboundEvent::InstallSnapshotChunk(rx, resp_tx))
                .await
                .map_err(|_| NetworkError::ResponseChannelClosed)?;
            let net2 = net.clone();
            let feeder = tokio::spawn(async move {
                while let Some(chunk) = data_stream.next().await {
                    let Ok(chunk) = chunk else { break };
                    if net2.blocked(my, peer_id) {
                        // connection broken mid-transfer: stop feeding, receiver sees early close
                        break;
                    }
                    tokio::time::sleep(Duration::from_millis(1)).await;
                    if tx.send(chunk).await.is_err() {
                        break;
                    }
                }
            });
            let server_timeout = Duration::from_millis(ep.cfg.raft.snapshot_rpc_timeout_ms);
            let r = tokio::time::timeout(server_timeout, resp_rx).await;
            let _ = feeder.await;
            match r {
                Ok(Ok(Ok(resp))) => {
                    net.reply_leg(peer_id, my).await;
                    if resp.success {
                        Ok(())
                    } else {
                        Err(NetworkError::TonicStatusError(Box::new(Status::internal(
                            "snapshot rejected",
                        )))
                        .into())
                    }
                }
                Ok(Ok(Err(s))) => Err(NetworkError::TonicStatusError(Box::new(s)).into()),
                _ => Err(NetworkError::ResponseChannelClosed.into()),
            }
        }
        .await;
        self.net.log(Ev::SnapshotPush {
            from: my,
            to: peer_id,
            last_index: li.index,
            last_term: li.term,
            ok: res.is_ok(),
        });
        res
    }

    async fn request_snapshot_from_leader(
        &self,
        leader_id: u32,
        ack_rx: mpsc::Receiver<SnapshotAck>,
        _retry: &InstallSnapshotBackoffPolicy,
        _membership: Arc<MOF<T>>,
    ) -> Result<mpsc::Receiver<SnapshotChunk>> {
        // a gRPC channel gives up on an unreachable peer (connect / request timeout): a
        // blackholed leader must not park the caller forever
        let connect = Duration::from_millis(2000);
        let ep = match tokio::time::timeout(connect, self.net.request_leg(self.my_id, leader_id)).await {
            Ok(r) => r.map_err(|s| NetworkError::TonicStatusError(Box::new(s)))?,
            Err(_) => {
                return Err(NetworkError::TonicStatusError(Box::new(Status::unavailable("sim: connect timeout"))).into());
            }
        };
        let (chunk_tx, mut chunk_rx) = mpsc::channel::<Arc<SnapshotChunk>>(32);
        let (startup_tx, startup_rx) = tokio::sync::oneshot::channel();
        ep.event_tx
            .send(InboundEvent::StreamSnapshot(ack_rx, chunk_tx, startup_tx))
            .await
            .map_err(|_| NetworkError::ResponseChannelClosed)?;
        let startup_timeout = Duration::from_millis(ep.cfg.raft.general_raft_timeout_duration_in_ms);
        match tokio::time::timeout(startup_timeout, startup_rx).await {
            Ok(Ok(Ok(()))) => {}
            Ok(Ok(Err(s))) => return Err(NetworkError::TonicStatusError(Box::new(s)).into()),
            Ok(Err(_)) => return Err(NetworkError::ResponseChannelClosed.into()),
            Err(_) => {
                return Err(NetworkError::TonicStatusError(Box::new(Status::deadline_exceeded("sim: stream_snapshot startup timeout"))).into());
            }
        }
        let (tx, rx) = mpsc::channel(32);
        tokio::spawn(async move {
            while let Some(c) = chunk_rx.recv().await {
                if tx.send((*c).clone()).await.is_err() {
                    break;
                }
            }
        });
        Ok(rx)
    }

    async fn open_replication_stream(
        &self,
        peer_id: u32,
        _membership: Arc<MOF<T>>,
        _compress: bool,
    ) -> Result<ReplicationStream> {
        let net = self.net.clone();
        let my = self.my_id;
        // handshake
        let ep = match net.request_leg(my, peer_id).now_or_never() {
            Some(r) => r,
            None => {
                // blackholed or delayed: emulate connect timeout
                match tokio::time::timeout(Duration::from_millis(200), net.request_leg(my, peer_id))
                    .await
                {
                    Ok(r) => r,
                    Err(_) => Err(Status::unavailable("sim: connect timeout")),
                }
            }
        };
        let ep = ep.map_err(|s| NetworkError::TonicStatusError(Box::new(s)))?;
        let target_inc = ep.inc;

        let (req_tx, mut req_rx) = mpsc::channel::<AppendEntriesRequest>(128);
        let (out_tx, out_rx) =
            mpsc::channel::<std::result::Result<AppendEntriesResponse, Status>>(128);
        type RespRx = d_engine_core::MaybeCloneOneshotReceiver<
            std::result::Result<AppendEntriesResponse, Status>,
        >;
        let (ordered_tx, mut ordered_rx) = mpsc::unbounded_channel::<(u64, RespRx)>();

        // liveness check of this particular connection
        let alive = {
            let net = net.clone();
            move || -> bool {
                if net.blocked(my, peer_id) || net.blocked(peer_id, my) {
                    return false;
                }
                matches!(net.endpoint(peer_id), Some(e) if e.inc == target_inc)
            }
        };

        // request direction
        {
            let net = net.clone();
            let out_tx = out_tx.clone();
            let alive = alive.clone();
            let ep = ep.clone();
            tokio::spawn(async move {
                let mut last_deliver = Instant::now();
                while let Some(req) = req_rx.recv().await {
                    let id = net.next_id();
                    net.log(net.describe_ae(id, my, peer_id, &req));
                    let (drop_pct, dup_pct, reorder) = net.tier_n();
                    if !alive() {
                        let _ = out_tx.send(Err(Status::unavailable("sim: stream broken"))).await;
                        break;
                    }
                    if net.roll(drop_pct) {
                        continue; // tier N: lost inside a live stream
                    }
                    let copies = if net.roll(dup_pct) { 2 } else { 1 };
                    let d = net.delay(my, peer_id);
                    if reorder {
                        // tier N: independent delivery per message
                        for c in 0..copies {
                            let net = net.clone();
                            let ep = ep.clone();
                            let req = req.clone();
                            let ordered_tx = ordered_tx.clone();
                            let extra = net.delay(my, peer_id) * (c as u32 * 3);
                            tokio::spawn(async move {
                                tokio::time::sleep(d + extra).await;
                                let (tx, rx) = MaybeCloneOneshot::new();
                                net.log(Ev::AeDeliver { id, to: peer_id });
                                if ep
                                    .event_tx
                                    .send(InboundEvent::AppendEntries(req, vec![tx]))
                                    .await
                                    .is_ok()
                                {
                                    let _ = ordered_tx.send((id, rx));
                                }
                            });
                        }
                        continue;
                    }
                    // FIFO: never deliver before the previous message
                    let mut at = Instant::now() + d;
                    if at < last_deliver {
                        at = last_deliver;
                    }
                    last_deliver = at;
                    tokio::time::sleep_until(at).await;
                    if !alive() {
                        let _ = out_tx.send(Err(Status::unavailable("sim: stream broken"))).await;
                        break;
                    }
                    for _ in 0..copies {
                        let (tx, rx) = MaybeCloneOneshot::new();
                        net.log(Ev::AeDeliver { id, to: peer_id });
                        if ep
                            .event_tx
                            .send(InboundEvent::AppendEntries(req.clone(), vec![tx]))
                            .await
                            .is_err()
                        {
                            let _ =
                                out_tx.send(Err(Status::unavailable("sim: peer closed"))).await;
                            return;
                        }
                        let _ = ordered_tx.send((id, rx));
                    }
                }
            });
        }

        // response direction (ordered forwarder, like the real service)
        {
            let net = net.clone();
            let alive = alive.clone();
            let ep = ep.clone();
            let out_tx = out_tx.clone();
            tokio::spawn(async move {
                let mut last_deliver = Instant::now();
                while let Some((id, rx)) = ordered_rx.recv().await {
                    let result = match rx.await {
                        Ok(Ok(resp)) => Ok(resp),
                        Ok(Err(s)) => Err(s),
                        Err(_) => Err(Status::internal("Response channel closed")),
                    };
                    // a request delivered twice (tier N) is answered twice: every reply gets
                    // its own id so that monitors know which one reached the leader
                    let rid = net.next_id();
                    if let Ok(resp) = &result {
                        net.log(net.describe_reply(id, rid, peer_id, my, resp, &ep.log));
                    }
                    if !alive() {
                        let _ = out_tx.send(Err(Status::unavailable("sim: stream broken"))).await;
                        break;
                    }
                    let (drop_pct, _dup, reorder) = net.tier_n();
                    if net.roll(drop_pct) {
                        continue;
                    }
                    let d = net.delay(peer_id, my);
                    if reorder {
                        let out_tx = out_tx.clone();
                        let net = net.clone();
                        tokio::spawn(async move {
                            tokio::time::sleep(d).await;
                            net.log(Ev::AeReplyDeliver { id, rid, leader: my });
                            let _ = out_tx.send(result).await;
                        });
                        continue;
                    }
                    let mut at = Instant::now() + d;
                    if at < last_deliver {
                        at = last_deliver;
                    }
                    last_deliver = at;
                    tokio::time::sleep_until(at).await;
                    if !alive() {
                        let _ = out_tx.send(Err(Status::unavailable("sim: stream broken"))).await;
                        break;
                    }
                    net.log(Ev::AeReplyDeliver { id, rid, leader: my });
                    if out_tx.send(result).await.is_err() {
                        break;
                    }
                }
            });
        }

        // watchdog: an idle stream over a link that breaks must surface an error
        {
            let out_tx = out_tx.clone();
            let alive = alive.clone();
            tokio::spawn(async move {
                loop {
                    tokio::time::sleep(Duration::from_millis(50)).await;
                    if out_tx.is_closed() {
                        break;
                    }
                    if !alive() {
                        let _ = out_tx.send(Err(Status::unavailable("sim: stream broken"))).await;
                        break;
                    }
                }
            });
        }

        let receiver = tokio_stream::wrappers::ReceiverStream::new(out_rx).boxed();
        Ok(ReplicationStream { sender: req_tx, receiver })
    }
}

/// convenience for scenarios
pub fn partition(net: &Net, groups: &[Vec<u32>]) {
    net.set_faults(|f| {
        f.blocked.clear();
        let all: BTreeSet<u32> = groups.iter().flatten().cloned().collect();
        for a in &all {
            for b in &all {
                if a == b {
                    continue;
                }
                let ga = groups.iter().position(|g| g.contains(a));
                let gb = groups.iter().position(|g| g.contains(b));
                if ga != gb {
                    f.blocked.insert((*a, *b));
                }
            }
        }
    });
}

pub fn heal(net: &Net) {
    net.set_faults(|f| {
        f.blocked.clear();
        f.link_delay.clear();
        f.drop_pct = 0;
        f.dup_pct = 0;
        f.reorder = false;
    });
}
