//! A simulated node = exactly what `NodeBuilder::build()` assembles, with the transport replaced
//! by `SimTransport` and the state machine wrapped by the recording `Observed` delegate.

use std::fmt::Debug;
use std::marker::PhantomData;
use std::path::PathBuf;
use std::sync::Arc;
use std::sync::atomic::AtomicBool;
use std::sync::atomic::AtomicU64;
use std::sync::atomic::Ordering;
use std::time::Duration;

use async_trait::async_trait;
use bytes::Bytes;
use d_engine_core::ApplyEntry;
use d_engine_core::ApplyResult;
use d_engine_core::BufferedRaftLog;
use d_engine_core::ClientCmd;
use d_engine_core::CommitHandler;
use d_engine_core::CommitHandlerDependencies;
use d_engine_core::DefaultCommitHandler;
use d_engine_core::DefaultPurgeExecutor;
use d_engine_core::DefaultStateMachineHandler;
use d_engine_core::ElectionHandler;
use d_engine_core::Error;
use d_engine_core::InboundEvent;
use d_engine_core::InternalEvent;
use d_engine_core::LeaderInfo;
use d_engine_core::LogSizePolicy;
use d_engine_core::NewCommitData;
use d_engine_core::Raft;
use d_engine_core::RaftCoreHandlers;
use d_engine_core::RaftLog;
use d_engine_core::RaftNodeConfig;
use d_engine_core::RaftRole;
use d_engine_core::RaftStorageHandles;
use d_engine_core::ReadLease;
use d_engine_core::ReplicationHandler;
use d_engine_core::ScanResult;
use d_engine_core::SignalParams;
use d_engine_core::StateMachine;
use d_engine_core::StateMachineWorker;
use d_engine_core::StorageEngine;
use d_engine_core::TypeConfig;
use d_engine_core::follower_state::FollowerState;
use d_engine_core::learner_state::LearnerState;
use d_engine_proto::common::LogId;
use d_engine_proto::server::storage::SnapshotMetadata;
use d_engine_server::verif_export::MembershipSnapshot;
use d_engine_server::verif_export::RaftMembership;
use d_engine_server::verif_export::VerifEmbeddedRead;
use d_engine_server::verif_export::VerifStandaloneRead;
use d_engine_server::verif_export::new_membership;
use tokio::sync::mpsc;
use tokio::sync::watch;
use tokio::task::JoinHandle;

use super::net::Endpoint;
use super::net::LogView;
use super::net::Net;
use super::net::SimTransport;
use super::record::Ev;
use super::record::Recorder;
use crate::util::fnv64;

// ------------------------------------------------------------------------------------------
// Observed state machine wrapper: delegates EVERY trait method explicitly.
// ------------------------------------------------------------------------------------------

pub struct SmKnobs {
    /// virtual-time delay injected before each apply_chunk (apply-lag knob)
    pub apply_delay_ms: AtomicU64,
    /// make the next apply_chunk fail (fatal-error path)
    pub fail_next_apply: AtomicBool,
}

pub struct Observed<SM: StateMachine> {
    pub inner: SM,
    pub node: u32,
    pub inc: u32,
    pub rec: Recorder,
    pub net: Net,
    pub knobs: Arc<SmKnobs>,
}

impl<SM: StateMachine> Debug for Observed<SM> {
    fn fmt(&self, f: &mut std::fmt::Formatter<'_>) -> std::fmt::Result {
        f.debug_struct("Observed").field("node", &self.node).finish()
    }
}

#[async_trait]
impl<SM: StateMachine> StateMachine for Observed<SM> {
    async fn start(&self) -> Result<(), Error> {
        self.inner.start().await
    }
    fn stop(&self) -> Result<(), Error> {
        self.inner.stop()
    }
    fn close_storage(&self) {
        self.inner.close_storage()
    }
    fn is_running(&self) -> bool {
        self.inner.is_running()
    }
    fn get(&self, key_buffer: &[u8]) -> Result<Option<Bytes>, Error> {
        self.inner.get(key_buffer)
    }
    fn get_multi(&self, keys: &[Bytes]) -> Result<Vec<Option<Bytes>>, Error> {
        self.inner.get_multi(keys)
    }
    fn entry_term(&self, entry_id: u64) -> Option<u64> {
        self.inner.entry_term(entry_id)
    }
    async fn apply_chunk(&self, chunk: &[ApplyEntry]) -> Result<Vec<ApplyResult>, Error> {
        let d = self.knobs.apply_delay_ms.load(Ordering::Relaxed);
        if d > 0 {
            tokio::time::sleep(Duration::from_millis(d)).await;
        }
        if self.knobs.fail_next_apply.swap(false, Ordering::Relaxed) {
            return Err(Error::Fatal("sim: injected apply failure".into()));
        }
        let r = self.inner.apply_chunk(chunk).await;
        if let Ok(results) = &r {
            let t = self.net.now();
            for (i, e) in chunk.iter().enumerate() {
                let ok = results.get(i).map(|r| r.succeeded).unwrap_or(false);
                self.rec.push(
                    t,
                    Ev::Apply {
                        node: self.node,
                        inc: self.inc,
                        index: e.index,
                        term: e.term,
                        cmd: e.command.clone(),
                        ok,
                    },
                );
            }
        }
        r
    }
    fn len(&self) -> usize {
        self.inner.len()
    }
    fn is_empty(&self) -> bool {
        self.inner.is_empty()
    }
    fn update_last_applied(&self, last_applied: LogId) {
        self.inner.update_last_applied(last_applied)
    }
    fn last_applied(&self) -> LogId {
        self.inner.last_applied()
    }
    fn persist_last_applied(&self, last_applied: LogId) -> Result<(), Error> {
        self.inner.persist_last_applied(last_applied)
    }
    fn update_last_snapshot_metadata(&self, m: &SnapshotMetadata) -> Result<(), Error> {
        self.inner.update_last_snapshot_metadata(m)
    }
    fn snapshot_metadata(&self) -> Option<SnapshotMetadata> {
        self.inner.snapshot_metadata()
    }
    fn persist_last_snapshot_metadata(&self, m: &SnapshotMetadata) -> Result<(), Error> {
        self.inner.persist_last_snapshot_metadata(m)
    }
    async fn apply_snapshot_from_file(
        &self,
        metadata: &SnapshotMetadata,
        snapshot_path: PathBuf,
    ) -> Result<(), Error> {
        let r = self.inner.apply_snapshot_from_file(metadata, snapshot_path).await;
        if r.is_ok() {
            let li = metadata.last_included.unwrap_or_default();
            self.rec.push(
                self.net.now(),
                Ev::SnapshotInstall {
                    node: self.node,
                    inc: self.inc,
                    last_index: li.index,
                    last_term: li.term,
                },
            );
        }
        r
    }
    async fn generate_snapshot_data(
        &self,
        new_snapshot_dir: PathBuf,
        last_included: LogId,
    ) -> Result<Bytes, Error> {
        let sm_la = self.inner.last_applied().index;
        let r = self.inner.generate_snapshot_data(new_snapshot_dir, last_included).await;
        if r.is_ok() {
            self.rec.push(
                self.net.now(),
                Ev::SnapshotGenerate {
                    node: self.node,
                    inc: self.inc,
                    last_index: last_included.index,
                    last_term: last_included.term,
                    sm_last_applied: sm_la,
                },
            );
        }
        r
    }
    fn save_hard_state(&self) -> Result<(), Error> {
        self.inner.save_hard_state()
    }
    fn flush(&self) -> Result<(), Error> {
        self.inner.flush()
    }
    async fn flush_async(&self) -> Result<(), Error> {
        self.inner.flush_async().await
    }
    async fn reset(&self) -> Result<(), Error> {
        self.inner.reset().await
    }
    fn scan_prefix(&self, prefix: &[u8]) -> Result<ScanResult, Error> {
        self.inner.scan_prefix(prefix)
    }
    async fn lease_background_cleanup(&self) -> Result<Vec<Bytes>, Error> {
        self.inner.lease_background_cleanup().await
    }
}

// ------------------------------------------------------------------------------------------
// TypeConfig
// ------------------------------------------------------------------------------------------

pub struct SimTC<SE, SM>(PhantomData<(SE, SM)>);

impl<SE, SM> Debug for SimTC<SE, SM> {
    fn fmt(&self, f: &mut std::fmt::Formatter<'_>) -> std::fmt::Result {
        f.write_str("SimTC")
    }
}

impl<SE, SM> TypeConfig for SimTC<SE, SM>
where
    SE: StorageEngine + Debug,
    SM: StateMachine + Debug,
{
    type SE = SE;
    type SM = Observed<SM>;
    type R = BufferedRaftLog<Self>;
    type M = RaftMembership<Self>;
    type TR = SimTransport<Self>;
    type E = ElectionHandler<Self>;
    type REP = ReplicationHandler<Self>;
    type C = DefaultCommitHandler<Self>;
    type SMH = DefaultStateMachineHandler<Self>;
    type SNP = LogSizePolicy;
    type PE = DefaultPurgeExecutor<Self>;
}

impl<T: TypeConfig> LogView for BufferedRaftLog<T> {
    fn sig(&self, idx: u64) -> Option<(u64, u64)> {
        self.entry(idx).ok().flatten().map(|e| {
            use prost::Message;
            let h = match &e.payload {
                Some(p) => fnv64(&p.encode_to_vec()),
                None => 0,
            };
            (e.term, h)
        })
    }
    fn first(&self) -> u64 {
        self.first_entry_id()
    }
    fn last(&self) -> u64 {
        self.last_entry_id()
    }
    fn term_of(&self, idx: u64) -> Option<u64> {
        self.entry_term(idx)
    }
    fn conf_change(&self, idx: u64) -> Option<(&'static str, Vec<u32>)> {
        use d_engine_proto::common::entry_payload::Payload;
        use d_engine_proto::common::membership_change::Change;
        let e = self.entry(idx).ok().flatten()?;
        match e.payload?.payload? {
            Payload::Config(mc) => match mc.change? {
                Change::AddNode(a) => Some(("add", vec![a.node_id])),
                Change::RemoveNode(r) => Some(("remove", vec![r.node_id])),
                Change::Promote(p) => Some(("promote", vec![p.node_id])),
                Change::BatchPromote(b) => Some(("promote", b.node_ids)),
                Change::BatchRemove(b) => Some(("remove", b.node_ids)),
            },
            _ => None,
        }
    }
}

// ------------------------------------------------------------------------------------------
// Live node
// ------------------------------------------------------------------------------------------

pub struct LiveNode<SE, SM>
where
    SE: StorageEngine + Debug,
    SM: StateMachine + Debug,
{
    pub id: u32,
    pub inc: u32,
    pub cfg: Arc<RaftNodeConfig>,
    pub event_tx: mpsc::Sender<InboundEvent>,
    pub cmd_tx: mpsc::Sender<ClientCmd>,
    pub internal_tx: mpsc::UnboundedSender<InternalEvent>,
    pub shutdown_tx: watch::Sender<()>,
    pub raft_log: Arc<BufferedRaftLog<SimTC<SE, SM>>>,
    pub sm: Arc<Observed<SM>>,
    pub smh: Arc<DefaultStateMachineHandler<SimTC<SE, SM>>>,
    pub membership: Arc<RaftMembership<SimTC<SE, SM>>>,
    pub membership_rx: watch::Receiver<MembershipSnapshot>,
    pub lease: Arc<ReadLease>,
    pub leader_rx: watch::Receiver<Option<LeaderInfo>>,
    pub embedded_read: VerifEmbeddedRead<SimTC<SE, SM>>,
    pub standalone_read: VerifStandaloneRead,
    pub knobs: Arc<SmKnobs>,
    pub raft_task: JoinHandle<()>,
    pub aux_tasks: Vec<JoinHandle<()>>,
    /// set when the raft loop returned
    pub exited: Arc<AtomicBool>,
    #[cfg_attr(not(feature = "__never"), allow(dead_code))]
    pub watch_registry: Arc<d_engine_core::watch::WatchRegistry>,
}

impl<SE, SM> LiveNode<SE, SM>
where
    SE: StorageEngine + Debug,
    SM: StateMachine + Debug,
{
    pub fn abort_all(&self) {
        self.raft_task.abort();
        for t in &self.aux_tasks {
            t.abort();
        }
    }
}

/// Assemble and start a node on the current runtime. Mirrors `NodeBuilder::build()` +
/// `Node::run()` (minus gRPC server, health-check gate and connection pre-warming).
pub async fn start_node<SE, SM>(
    cfg: RaftNodeConfig,
    storage_engine: Arc<SE>,
    inner_sm: SM,
    net: Net,
    rec: Recorder,
    inc: u32,
) -> Result<LiveNode<SE, SM>, Error>
where
    SE: StorageEngine + Debug,
    SM: StateMachine + Debug,
{
    type TC<SE, SM> = SimTC<SE, SM>;
    let node_id = cfg.cluster.node_id;
    let node_config = cfg.clone();
    let (shutdown_tx, shutdown_rx) = watch::channel(());
    let knobs = Arc::new(SmKnobs {
        apply_delay_ms: AtomicU64::new(0),
        fail_next_apply: AtomicBool::new(false),
    });
    let state_machine = Arc::new(Observed {
        inner: inner_sm,
        node: node_id,
        inc,
        rec: rec.clone(),
        net: net.clone(),
        knobs: knobs.clone(),
    });
    let mut aux: Vec<JoinHandle<()>> = Vec::new();

    let (new_commit_event_tx, new_commit_event_rx) = mpsc::unbounded_channel::<NewCommitData>();
    state_machine.start().await?;

    // lease background cleanup worker (as NodeBuilder::spawn_background_cleanup_worker)
    {
        let sm = state_machine.clone();
        let interval_ms = node_config.raft.state_machine.lease.cleanup_interval_ms;
        let mut sd = shutdown_rx.clone();
        aux.push(tokio::spawn(async move {
            let mut interval = tokio::time::interval(Duration::from_millis(interval_ms.max(1)));
            loop {
                tokio::select! {
                    _ = interval.tick() => { let _ = sm.lease_background_cleanup().await; }
                    _ = sd.changed() => break,
                }
            }
        }));
    }

    let last_applied_index = state_machine.last_applied().index;
    let (internal_event_tx, internal_event_rx) = mpsc::unbounded_channel();

    let (raft_log, io_handle) = {
        let (log, receiver) = BufferedRaftLog::<TC<SE, SM>>::new(
            node_id,
            node_config.raft.persistence.clone(),
            storage_engine.clone(),
        );
        log.start_on_current_runtime(receiver, Some(internal_event_tx.clone()))
    };
    aux.push(io_handle);

    let transport = SimTransport::<TC<SE, SM>>::new(node_id, net.clone());
    let snapshot_policy = LogSizePolicy::new(
        node_config.raft.snapshot.max_log_entries_before_snapshot,
        node_config.raft.snapshot.snapshot_cool_down_since_last_check,
    );

    // watch system (as NodeBuilder with feature watch)
    let (broadcast_tx, broadcast_rx) =
        tokio::sync::broadcast::channel(node_config.raft.watch.event_queue_size);
    let (unregister_tx, unregister_rx) = mpsc::unbounded_channel();
    let registry = Arc::new(d_engine_core::watch::WatchRegistry::new_with_limits(
        node_config.raft.watch.watcher_buffer_size,
        node_config.raft.watch.max_watcher_count,
        unregister_tx,
    ));
    let last_applied_ref = Arc::new(AtomicU64::new(last_applied_index));
    let dispatcher = d_engine_core::watch::WatchDispatcher::new(
        Arc::clone(&registry),
        broadcast_rx,
        unregister_rx,
        Arc::clone(&last_applied_ref),
        node_config.raft.watch.heartbeat_interval_ms,
    );
    aux.push(tokio::spawn(async move {
        dispatcher.run().await;
    }));

    let state_machine_handler = Arc::new(DefaultStateMachineHandler::<TC<SE, SM>>::new(
        node_id,
        last_applied_index,
        state_machine.clone(),
        node_config.raft.snapshot.clone(),
        snapshot_policy,
        Some(broadcast_tx),
        registry.prev_kv_watcher_count_arc(),
    ));

    let (membership_inner, mut zombie_rx) = new_membership::<TC<SE, SM>>(
        node_id,
        node_config.cluster.initial_cluster.clone(),
        node_config.clone(),
    );
    let membership = Arc::new(membership_inner);
    let membership_rx = membership.subscribe_membership();
    // zombie signals are only logged by the leader; keep the channel drained
    aux.push(tokio::spawn(async move { while zombie_rx.recv().await.is_some() {} }));

    let purge_executor = DefaultPurgeExecutor::new(raft_log.clone());
    let (event_tx, event_rx) = mpsc::channel(10240);
    let (cmd_tx, cmd_rx) = mpsc::channel(node_config.raft.cmd_channel_capacity);
    let internal_event_tx_clone = internal_event_tx.clone();
    let internal_event_tx_for_sm = internal_event_tx.clone();
    let internal_tx_pub = internal_event_tx.clone();

    let node_config_arc = Arc::new(node_config);
    // <scratch>/n<id>_<k>/db -> the node's data directory is the parent of db_root_dir
    let node_dir: PathBuf = node_config_arc.cluster.db_root_dir.parent().map(|p| p.to_path_buf()).unwrap_or_else(|| node_config_arc.cluster.db_root_dir.clone());
    let is_learner = node_config_arc.is_learner();
    let my_role = if is_learner {
        RaftRole::Learner(Box::new(LearnerState::new(node_id, node_config_arc.clone())))
    } else {
        RaftRole::Follower(Box::new(FollowerState::new(
            node_id,
            node_config_arc.clone(),
            raft_log.load_hard_state().expect("Failed to load hard state"),
            Some(state_machine.last_applied().index),
        )))
    };
    let my_role_i32 = my_role.as_i32();
    let my_current_term = my_role.current_term();

    let mut raft_core = Raft::<TC<SE, SM>>::new(
        node_id,
        my_role,
        RaftStorageHandles::<TC<SE, SM>> {
            raft_log: raft_log.clone(),
            state_machine: state_machine.clone(),
        },
        transport,
        RaftCoreHandlers::<TC<SE, SM>> {
            election_handler: ElectionHandler::new(node_id),
            replication_handler: ReplicationHandler::new(node_id),
            state_machine_handler: state_machine_handler.clone(),
            purge_executor: Arc::new(purge_executor),
        },
        membership.clone(),
        SignalParams::new(
            internal_event_tx,
            internal_event_rx,
            event_tx.clone(),
            event_rx,
            cmd_tx.clone(),
            cmd_rx,
            shutdown_rx.clone(),
        ),
        node_config_arc.clone(),
    );
    raft_core.register_new_commit_listener(new_commit_event_tx);
    let (leader_tx, leader_rx) = watch::channel(None);
    raft_core.register_leader_change_listener(leader_tx);

    // SM worker (task instead of OS thread: same code, scheduled with the node)
    let (sm_apply_tx, sm_apply_rx) = mpsc::unbounded_channel();
    let sm_worker = StateMachineWorker::<TC<SE, SM>>::new(
        node_id,
        state_machine_handler.clone(),
        sm_apply_rx,
        internal_event_tx_for_sm,
        shutdown_rx.clone(),
    );
    aux.push(tokio::spawn(async move {
        let _ = sm_worker.run().await;
    }));

    let deps = CommitHandlerDependencies::<TC<SE, SM>> {
        state_machine_handler: state_machine_handler.clone(),
        raft_log: raft_log.clone(),
        membership: membership.clone(),
        internal_event_tx: internal_event_tx_clone,
        sm_apply_tx,
        shutdown_signal: shutdown_rx.clone(),
        max_batch_size: node_config_arc.raft.batching.max_batch_size,
    };
    let mut commit_handler = DefaultCommitHandler::<TC<SE, SM>>::new(
        node_id,
        my_role_i32,
        my_current_term,
        deps,
        new_commit_event_rx,
    );
    aux.push(tokio::spawn(async move {
        let _ = commit_handler.run().await;
    }));

    let lease = raft_core.read_lease();
    let (standalone_read, ra_handle) = VerifStandaloneRead::spawn(
        Arc::clone(&lease),
        state_machine.clone(),
        cmd_tx.clone(),
        node_config_arc.raft.read_actor.channel_capacity,
        node_config_arc.raft.read_actor.max_drain,
    );
    aux.push(ra_handle);
    let embedded_read =
        VerifEmbeddedRead::<TC<SE, SM>>::new(state_machine.clone(), Arc::clone(&lease), cmd_tx.clone());

    net.register(
        node_id,
        Endpoint {
            dir: node_dir.clone(),
            image_dir: node_dir.parent().unwrap_or(&node_dir).join(format!("n{}_{}", node_id, inc + 1)),
            inc,
            event_tx: event_tx.clone(),
            cfg: node_config_arc.clone(),
            log: raft_log.clone() as Arc<dyn LogView>,
        },
    );
    rec.push(net.now(), Ev::Start { node: node_id, inc, learner: is_learner, applied: state_machine.last_applied().index });

    let exited = Arc::new(AtomicBool::new(false));
    let exited2 = exited.clone();
    let rec2 = rec.clone();
    let net2 = net.clone();
    let raft_task = tokio::spawn(async move {
        if is_learner {
            // Node::run_as_learner
            if let Err(e) = raft_core.join_cluster().await {
                rec2.push(
                    net2.now(),
                    Ev::NodeExit { node: node_id, inc, fatal: false, msg: format!("join failed: {e:?}") },
                );
                exited2.store(true, Ordering::SeqCst);
                return;
            }
        }
        rec2.push(net2.now(), Ev::LoopStart { node: node_id, inc });
        let r = raft_core.run().await;
        let (fatal, msg) = match &r {
            Ok(()) => (false, "ok".to_string()),
            Err(e) => (true, format!("{e:?}")),
        };
        rec2.push(net2.now(), Ev::NodeExit { node: node_id, inc, fatal, msg });
        exited2.store(true, Ordering::SeqCst);
        // Raft<T> dropped here -> Drop saves hard state (graceful path)
    });

    Ok(LiveNode {
        id: node_id,
        inc,
        cfg: node_config_arc,
        event_tx,
        cmd_tx,
        internal_tx: internal_tx_pub,
        shutdown_tx,
        raft_log,
        sm: state_machine,
        smh: state_machine_handler,
        membership,
        membership_rx,
        lease,
        leader_rx,
        embedded_read,
        standalone_read,
        knobs,
        raft_task,
        aux_tasks: aux,
        exited,
        watch_registry: registry,
    })
}
