//! C36: merging queued AppendEntries does not change the outcome.
//!
//! Twin experiment on two identical, real follower nodes (full node assembly: Raft loop, real
//! inbound channel, real log, commit handler, state machine). The *same* queue of AppendEntries
//! requests is fed to the first follower in one burst (all events are in its inbound channel
//! before its loop runs again, so `Raft::merge_append_entries` gets to merge them) and to the
//! second one request at a time (the next is sent only after the previous was answered). Then
//!   * the two logs must be identical entry by entry,
//!   * the two commit indexes must be identical,
//!   * every sender's acknowledgement must be equivalent: same kind and term; for a success the
//!     burst acknowledgement may be cumulative (>= the sequential one, never beyond what the
//!     follower really matches the leader on) and the last request's acknowledgement is equal.
//! Queues: consecutive appends (mergeable), heartbeats, overlapping re-sends, gapped requests,
//! a term change in the middle, commit indexes that advance inside the queue, total size around
//! and above `max_merge_entries`.

use std::path::Path;
use std::time::Duration;

use bytes::Bytes;
use d_engine_core::InboundEvent;
use d_engine_core::MaybeCloneOneshot;
use d_engine_core::RaftOneshot;
use d_engine_proto::client::WriteCommand;
use d_engine_proto::common::Entry;
use d_engine_proto::common::EntryPayload;
use d_engine_proto::server::replication::AppendEntriesRequest;
use d_engine_proto::server::replication::AppendEntriesResponse;
use d_engine_proto::server::replication::append_entries_response;
use prost::Message;
use serde_json::Value;
use serde_json::json;

use super::cluster::Cluster;
use super::cluster::FileKind;
use super::cluster::Params;
use crate::util::Rng;
use crate::util::ShardReport;
use crate::util::fnv64;

fn fresh_rt() -> tokio::runtime::Runtime {
    tokio::runtime::Builder::new_current_thread().enable_all().start_paused(true).build().expect("rt")
}

fn payload(i: u64, t: u64) -> EntryPayload {
    let cmd = WriteCommand::insert(Bytes::from(format!("mk{}", i % 3).into_bytes()), Bytes::from(format!("v{i}-{t}").into_bytes()));
    let mut buf = bytes::BytesMut::with_capacity(cmd.encoded_len());
    cmd.encode(&mut buf).unwrap();
    EntryPayload::command(buf.freeze())
}

#[derive(Clone, Debug)]
struct Req {
    term: u64,
    prev: u64,
    n: u64,
    commit: u64,
}

#[derive(Clone, Debug)]
struct Scenario {
    /// leader log terms; index i+1 -> terms[i]
    terms: Vec<u64>,
    /// entries the follower holds before the queue arrives (prefix of the leader log)
    initial: u64,
    queue: Vec<Req>,
    max_merge: usize,
}

fn gen_scenario(r: &mut Rng) -> Scenario {
    let n = r.range(6, 24);
    let mut t = 1u64;
    let mut terms = Vec::new();
    for _ in 0..n {
        if r.chance(1, 6) {
            t += 1;
        }
        terms.push(t);
    }
    let initial = r.below(n / 2 + 1);
    let k = r.range(2, 7);
    let sc_last_term = terms.last().unwrap_or(&1);
    let mut queue = Vec::new();
    let mut at = initial; // next prev for a consecutive request
    let mut commit = r.below(initial + 1);
    for _ in 0..k {
        let style = r.below(12);
        let (prev, cnt) = match style {
            0 => (at, 0),                                                   // heartbeat
            10 => (at + r.range(1, 3), 0),                                  // heartbeat anchored past the queue
            11 if at > 0 => (r.below(at), 0),                               // heartbeat anchored before it
            1 if at > 0 => (r.below(at), r.range(1, 3)),                    // overlapping re-send
            2 => (at + r.range(1, 2), r.range(1, 2)),                       // gapped
            _ => (at, r.range(1, 4)),                                       // consecutive
        };
        let prev = prev.min(n);
        let cnt = cnt.min(n - prev);
        let end = prev + cnt;
        // every request carries the term of the leader that sent it: the leader holds the whole
        // log, so its term is at least the log's last term; now and then a new leader (same
        // log, next term) takes over in the middle of the queue
        let base = *sc_last_term;
        let prev_req_term = queue.last().map(|q: &Req| q.term).unwrap_or(base);
        let mut term = prev_req_term.max(base);
        if r.chance(1, 8) {
            term += 1;
        }
        if r.chance(1, 2) {
            commit = (commit + r.below(3)).min(end.max(commit));
        }
        // a heartbeat's leader_commit is the leader's commit index, whatever its anchor
        let commit_sent = if cnt == 0 && r.chance(1, 2) { (commit + r.below(5)).min(n) } else { commit };
        queue.push(Req { term, prev, n: cnt, commit: commit_sent });
        if style != 1 && style != 2 && style != 10 && style != 11 {
            at = end;
        }
    }
    Scenario { terms, initial, queue, max_merge: *r.pick(&[3usize, 6, 1000]) }
}

fn build(sc: &Scenario, q: &Req) -> AppendEntriesRequest {
    let prev_term = if q.prev == 0 { 0 } else { sc.terms[(q.prev - 1) as usize] };
    let entries: Vec<Entry> = (q.prev + 1..=q.prev + q.n)
        .map(|i| Entry { index: i, term: sc.terms[(i - 1) as usize], payload: Some(payload(i, sc.terms[(i - 1) as usize])) })
        .collect();
    AppendEntriesRequest { term: q.term, leader_id: 1, prev_log_index: q.prev, prev_log_term: prev_term, entries, leader_commit_index: q.commit }
}

#[derive(Clone, Debug, PartialEq)]
enum Ack {
    Success { term: u64, matched: u64 },
    Conflict { term: u64 },
    HigherTerm { term: u64 },
    None,
}

fn ack_of(r: &Option<AppendEntriesResponse>) -> Ack {
    match r {
        None => Ack::None,
        Some(r) => match &r.result {
            Some(append_entries_response::Result::Success(s)) => Ack::Success { term: r.term, matched: s.last_match.map(|l| l.index).unwrap_or(0) },
            Some(append_entries_response::Result::Conflict(_)) => Ack::Conflict { term: r.term },
            Some(append_entries_response::Result::HigherTerm(_)) => Ack::HigherTerm { term: r.term },
            None => Ack::None,
        },
    }
}

struct Outcome {
    log: Vec<(u64, u64, u64)>,
    commit: u64,
    acks: Vec<Ack>,
}

async fn run_follower(sc: &Scenario, burst: bool, dir: &Path, seed: u64) -> Result<Outcome, String> {
    let mut p = Params::default();
    p.voters = 3;
    p.election_min = 600_000;
    p.election_max = 1_200_000;
    p.max_merge = sc.max_merge;
    let mut c = Cluster::<FileKind>::new(p, seed, dir);
    c.bootstrap_only(&[2]).await.map_err(|e| format!("{e:?}"))?;
    let ep = c.net.endpoint(2).ok_or("no endpoint")?;
    let send = |req: AppendEntriesRequest| {
        let (tx, rx) = MaybeCloneOneshot::new();
        let ok = ep.event_tx.try_send(InboundEvent::AppendEntries(req, vec![tx])).is_ok();
        (ok, rx)
    };
    // setup: the follower's initial prefix, one request, answered before the queue starts
    if sc.initial > 0 {
        let setup = build(sc, &Req { term: sc.terms[(sc.initial - 1) as usize], prev: 0, n: sc.initial, commit: 0 });
        let (ok, rx) = send(setup);
        if !ok {
            return Err("setup send failed".into());
        }
        let _ = tokio::time::timeout(Duration::from_millis(2000), rx).await;
    }
    let mut acks = Vec::new();
    if burst {
        // no await between the sends: all requests sit in the inbound channel together
        let mut rxs = Vec::new();
        for q in &sc.queue {
            let (ok, rx) = send(build(sc, q));
            if !ok {
                return Err("burst send failed".into());
            }
            rxs.push(rx);
        }
        for rx in rxs {
            let r = tokio::time::timeout(Duration::from_millis(3000), rx).await;
            acks.push(ack_of(&r.ok().and_then(|x| x.ok()).and_then(|x| x.ok())));
        }
    } else {
        for q in &sc.queue {
            let (ok, rx) = send(build(sc, q));
            if !ok {
                return Err("send failed".into());
            }
            let r = tokio::time::timeout(Duration::from_millis(3000), rx).await;
            acks.push(ack_of(&r.ok().and_then(|x| x.ok()).and_then(|x| x.ok())));
            c.sleep(5).await;
        }
    }
    c.sleep(300).await;
    let log = c.log_sigs(2).map(|(_, _, v)| v).unwrap_or_default();
    let commit = c.rec.online().commit_index.get(&2).cloned().unwrap_or(0);
    c.shutdown_all().await;
    Cluster::<FileKind>::uninstall_hooks();
    Ok(Outcome { log, commit, acks })
}

fn show_sc(sc: &Scenario) -> Value {
    json!({"leader_terms": sc.terms, "follower_initial_entries": sc.initial, "max_merge_entries": sc.max_merge,
           "queue": sc.queue.iter().map(|q| json!({"term": q.term, "prev": q.prev, "n": q.n, "leader_commit": q.commit})).collect::<Vec<_>>()})
}

pub fn run_c36(seed: u64, runs: u64, scratch: &Path, rep: &mut ShardReport, budget_s: u64) {
    let mut seeder = Rng::new(seed ^ 0xC36);
    let t0 = std::time::Instant::now();
    for run_no in 0..runs {
        if t0.elapsed().as_secs() >= budget_s {
            rep.notes.push(format!("time budget reached after {run_no} runs"));
            break;
        }
        let s = seeder.next() >> 1;
        let mut r = Rng::new(s);
        let sc = gen_scenario(&mut r);
        let d1 = scratch.join(format!("c36-a{run_no}"));
        let d2 = scratch.join(format!("c36-b{run_no}"));
        let _ = std::fs::create_dir_all(&d1);
        let _ = std::fs::create_dir_all(&d2);
        let a = {
            let rt = fresh_rt();
            let o = rt.block_on(run_follower(&sc, true, &d1, s));
            drop(rt);
            o
        };
        let b = {
            let rt = fresh_rt();
            let o = rt.block_on(run_follower(&sc, false, &d2, s));
            drop(rt);
            o
        };
        let _ = std::fs::remove_dir_all(&d1);
        let _ = std::fs::remove_dir_all(&d2);
        let (a, b) = match (a, b) {
            (Ok(a), Ok(b)) => (a, b),
            (Err(e), _) | (_, Err(e)) => {
                rep.inconclusive.push(format!("seed {s}: {e}"));
                continue;
            }
        };
        // how many requests were mergeable (contiguous, same term) with their predecessor
        let mergeable = sc.queue.windows(2).filter(|w| w[0].prev + w[0].n == w[1].prev && w[0].term == w[1].term).count();
        let sig = fnv64(format!("{:?}", sc.queue.iter().map(|q| (q.prev as i64 - sc.initial as i64, q.n, q.term)).collect::<Vec<_>>()).as_bytes());
        rep.eval(mergeable > 0, sig);
        rep.count("requests", sc.queue.len() as u64);
        rep.count("mergeable_pairs", mergeable as u64);
        if rep.samples.len() < 3 && mergeable > 0 {
            rep.sample(show_sc(&sc));
        }
        let scenario = json!({"seed": s, "scenario": show_sc(&sc)});
        let detail = |what: Value| json!({"detail": what, "burst": {"log": a.log.iter().map(|e| json!([e.0, e.1])).collect::<Vec<_>>(), "commit": a.commit, "acks": format!("{:?}", a.acks)},
                                          "sequential": {"log": b.log.iter().map(|e| json!([e.0, e.1])).collect::<Vec<_>>(), "commit": b.commit, "acks": format!("{:?}", b.acks)}});
        if a.log != b.log {
            rep.violation("C36", "merged-queue-leaves-a-different-log", detail(json!({})), scenario.clone());
            continue;
        }
        // merge groups as the real loop forms them when the whole queue is waiting: maximal runs
        // of contiguous same-term requests, cut at max_merge_entries
        let groups: Vec<(usize, usize)> = {
            let mut g = Vec::new();
            let mut i = 0;
            while i < sc.queue.len() {
                let mut next_prev = sc.queue[i].prev + sc.queue[i].n;
                let mut total = sc.queue[i].n as usize;
                let mut j = i + 1;
                while j < sc.queue.len() && sc.queue[j].prev == next_prev && sc.queue[j].term == sc.queue[i].term && total + sc.queue[j].n as usize <= sc.max_merge {
                    next_prev += sc.queue[j].n;
                    total += sc.queue[j].n as usize;
                    j += 1;
                }
                g.push((i, j));
                i = j;
            }
            g
        };
        if a.commit != b.commit {
            // mechanism recorded as a known finding: the merged request carries the maximum
            // leader_commit of its group, so a commit index that one request could only vouch for
            // up to its own end is applied to the entries a later request of the group brought
            let max_commit_carried_past_its_request = a.commit > b.commit
                && groups.iter().any(|(i, j)| {
                    let end = sc.queue[*i].prev + sc.queue[*i..*j].iter().map(|q| q.n).sum::<u64>();
                    let mut own_end = sc.queue[*i].prev;
                    j - i >= 2
                        && sc.queue[*i..*j].iter().any(|q| {
                            own_end += q.n;
                            q.commit > own_end && end > own_end
                        })
                });
            let sig = if max_commit_carried_past_its_request {
                "merged-queue-leaves-a-different-commit-index:max-leader-commit-of-a-merge-group-applied-to-entries-of-a-later-request"
            } else {
                "merged-queue-leaves-a-different-commit-index"
            };
            rep.violation("C36", sig, detail(json!({"burst_commit": a.commit, "sequential_commit": b.commit})), scenario.clone());
            continue;
        }
        // acknowledgements
        let truthful_upto = {
            // follower's final matched prefix with the leader log
            let mut m = 0;
            for e in &a.log {
                if e.0 == m + 1 && sc.terms.get((e.0 - 1) as usize) == Some(&e.1) {
                    m = e.0;
                } else {
                    break;
                }
            }
            m
        };
        for (i, (x, y)) in a.acks.iter().zip(b.acks.iter()).enumerate() {
            let last = i + 1 == a.acks.len();
            let ok = match (x, y) {
                (Ack::Success { term: t1, matched: m1 }, Ack::Success { term: t2, matched: m2 }) => t1 == t2 && *m1 >= *m2 && *m1 <= truthful_upto && (!last || m1 == m2),
                (Ack::Conflict { term: t1 }, Ack::Conflict { term: t2 }) => t1 == t2,
                (Ack::HigherTerm { term: t1 }, Ack::HigherTerm { term: t2 }) => t1 == t2,
                (Ack::None, Ack::None) => true,
                _ => false,
            };
            if !ok {
                // mechanism recorded as a known finding: alone, a heartbeat anchored inside the
                // follower's log is answered with the follower's last index; merged into a group
                // it gets the group's end
                let hb_inside = matches!((x, y), (Ack::Success { term: t1, matched: m1 }, Ack::Success { term: t2, matched: m2 })
                    if t1 == t2 && sc.queue[i].n == 0 && *m2 > sc.queue[i].prev && *m1 < *m2 && *m1 >= sc.queue[i].prev)
                    && groups.iter().any(|(gi, gj)| *gi <= i && i < *gj && gj - gi >= 2);
                let sig = if hb_inside {
                    "merged-sender-gets-a-different-acknowledgement:heartbeat-anchored-inside-the-log-answered-with-the-group-end-instead-of-the-last-index"
                } else {
                    "merged-sender-gets-a-different-acknowledgement"
                };
                rep.violation("C36", sig, detail(json!({"request_no": i, "burst_ack": format!("{x:?}"), "sequential_ack": format!("{y:?}"), "follower_matches_leader_upto": truthful_upto})), scenario.clone());
                break;
            }
        }
    }
}
