//! C17: snapshot transfers are all-or-nothing.
//!
//! A *donor* (real single-voter node, snapshot threshold low, chunk size small so that a snapshot
//! is 3-40 chunks) produces a genuine snapshot; its real `load_snapshot_data` yields the genuine
//! chunk stream. A *victim* (real follower node with its own, different applied state) receives
//! that stream through the real inbound event (`InstallSnapshotChunk`) after the harness mutated
//! it: nothing (control), drop a chunk, duplicate one, swap two, corrupt data, corrupt a checksum,
//! change leader id / term mid-stream, drop the metadata, cut the stream early, stall it past the
//! chunk timeout (virtual time), wrong total count. Oracle:
//!   * an intact stream: answered success, the victim's content equals the donor's content at the
//!     snapshot (the entries after its boundary are not replayed here), a final snapshot file
//!     exists;
//!   * any mutated stream that is not equivalent to the intact one: answered failure, the victim's
//!     key-value content and `last_applied` are exactly what they were, every file that existed in
//!     its snapshot directory is unchanged and no new *final* snapshot file appeared.

use std::collections::BTreeMap;
use std::path::Path;
use std::time::Duration;

use d_engine_core::InboundEvent;
use d_engine_core::MaybeCloneOneshot;
use d_engine_core::RaftOneshot;
use d_engine_core::StateMachine;
use d_engine_core::StateMachineHandler;
use d_engine_proto::server::storage::SnapshotChunk;
use futures::StreamExt;
use serde_json::Value;
use serde_json::json;
use tokio::sync::mpsc;

use super::cluster::Cluster;
use super::cluster::FileKind;
use super::cluster::Params;
use super::record::ClientOp;
use super::record::ClientResult;
use crate::util::Rng;
use crate::util::ShardReport;
use crate::util::fnv64;

fn fresh_rt() -> tokio::runtime::Runtime {
    tokio::runtime::Builder::new_current_thread().enable_all().start_paused(true).build().expect("rt")
}

fn dir_listing(p: &Path) -> BTreeMap<String, (u64, u64)> {
    let mut m = BTreeMap::new();
    fn walk(base: &Path, p: &Path, m: &mut BTreeMap<String, (u64, u64)>) {
        if let Ok(rd) = std::fs::read_dir(p) {
            for e in rd.flatten() {
                let path = e.path();
                if path.is_dir() {
                    walk(base, &path, m);
                } else if let Ok(data) = std::fs::read(&path) {
                    let rel = path.strip_prefix(base).unwrap_or(&path).display().to_string();
                    m.insert(rel, (data.len() as u64, fnv64(&data)));
                }
            }
        }
    }
    walk(p, p, &mut m);
    m
}

#[derive(Clone, Debug)]
enum Mutation {
    None,
    Drop(usize),
    Duplicate(usize),
    Swap(usize, usize),
    CorruptData(usize),
    CorruptChecksum(usize),
    ChangeLeader(usize),
    ChangeTerm(usize),
    NoMetadata,
    CutAfter(usize),
    StallBefore(usize),
    WrongTotal(i64),
    /// chunk i arrives twice (late ACK, sender retransmits) and the stream ends k chunks early
    /// with k = number of duplicates: as many chunks as announced, but not the announced ones
    RetransmitThenCut(usize, usize),
}

fn apply_mut(chunks: &[SnapshotChunk], m: &Mutation) -> (Vec<SnapshotChunk>, Option<usize>) {
    let mut v = chunks.to_vec();
    let mut stall_at = None;
    match m {
        Mutation::None => {}
        Mutation::Drop(i) => {
            v.remove(*i);
        }
        Mutation::Duplicate(i) => {
            let c = v[*i].clone();
            v.insert(*i, c);
        }
        Mutation::Swap(i, j) => v.swap(*i, *j),
        Mutation::CorruptData(i) => {
            let mut d = v[*i].data.to_vec();
            if d.is_empty() {
                d.push(1);
            } else {
                let k = d.len() / 2;
                d[k] ^= 0x5A;
            }
            v[*i].data = d.into();
        }
        Mutation::CorruptChecksum(i) => {
            let mut d = v[*i].chunk_checksum.to_vec();
            if d.is_empty() {
                d.push(7);
            } else {
                d[0] ^= 0xFF;
            }
            v[*i].chunk_checksum = d.into();
        }
        Mutation::ChangeLeader(i) => {
            for c in v.iter_mut().skip(*i) {
                c.leader_id += 1;
            }
        }
        Mutation::ChangeTerm(i) => {
            for c in v.iter_mut().skip(*i) {
                c.leader_term += 1;
            }
        }
        Mutation::NoMetadata => {
            for c in v.iter_mut() {
                c.metadata = None;
            }
        }
        Mutation::CutAfter(i) => v.truncate(*i),
        Mutation::StallBefore(i) => stall_at = Some(*i),
        Mutation::WrongTotal(d) => {
            for c in v.iter_mut() {
                c.total_chunks = (c.total_chunks as i64 + d).max(0) as u32;
            }
        }
        Mutation::RetransmitThenCut(i, k) => {
            let n = v.len();
            for _ in 0..*k {
                let c = v[*i].clone();
                v.insert(*i, c);
            }
            v.truncate(n);
        }
    }
    (v, stall_at)
}

/// one to three faults in sequence, each picked against the stream as it is by then
fn mutate(r: &mut Rng, chunks: &[SnapshotChunk]) -> (Vec<SnapshotChunk>, Option<usize>, Vec<Mutation>) {
    let rounds = match r.below(10) {
        0..=5 => 1,
        6..=8 => 2,
        _ => 3,
    };
    let mut v = chunks.to_vec();
    let mut stall = None;
    let mut ms = Vec::new();
    for _ in 0..rounds {
        if v.is_empty() {
            break;
        }
        let m = pick_mutation(r, v.len());
        if matches!(m, Mutation::None) && rounds > 1 {
            continue;
        }
        let (v2, st) = apply_mut(&v, &m);
        v = v2;
        if st.is_some() {
            stall = st;
        }
        ms.push(m);
    }
    if ms.is_empty() {
        ms.push(Mutation::None);
    }
    (v, stall, ms)
}

fn same_stream(a: &[SnapshotChunk], b: &[SnapshotChunk]) -> bool {
    a.len() == b.len()
        && a.iter().zip(b).all(|(x, y)| {
            x.seq == y.seq
                && x.data == y.data
                && x.chunk_checksum == y.chunk_checksum
                && x.total_chunks == y.total_chunks
                && x.leader_id == y.leader_id
                && x.leader_term == y.leader_term
                && x.metadata == y.metadata
        })
}

fn pick_mutation(r: &mut Rng, n: usize) -> Mutation {
    let i = r.below(n as u64) as usize;
    match r.below(16) {
        0 | 1 => Mutation::None,
        14 | 15 if n >= 2 => {
            let i = r.below(n as u64 - 1) as usize;
            let k = 1 + r.below((n - 1 - i).min(2) as u64) as usize;
            Mutation::RetransmitThenCut(i, k)
        }
        2 => Mutation::Drop(i),
        3 => Mutation::Duplicate(i),
        4 if n >= 2 => {
            let j = (i + 1 + r.below(n as u64 - 1) as usize) % n;
            Mutation::Swap(i.min(j), i.max(j))
        }
        5 => Mutation::CorruptData(i),
        6 => Mutation::CorruptChecksum(i),
        7 if n >= 2 => Mutation::ChangeLeader(1 + r.below(n as u64 - 1) as usize),
        8 if n >= 2 => Mutation::ChangeTerm(1 + r.below(n as u64 - 1) as usize),
        9 => Mutation::NoMetadata,
        10 => Mutation::CutAfter(r.below(n as u64) as usize),
        11 => Mutation::StallBefore(i),
        12 => Mutation::WrongTotal(if r.chance(1, 2) { 1 } else { -1 }),
        _ => Mutation::Drop(i),
    }
}

async fn content(c: &Cluster<FileKind>, node: u32, keys: &[Vec<u8>]) -> Vec<Option<Vec<u8>>> {
    let n = c.node(node).expect("node");
    keys.iter().map(|k| n.sm.get(k).ok().flatten().map(|b| b.to_vec())).collect()
}

/// one evaluation; returns (violations, description, non-trivial)
async fn one(seed: u64, dir: &Path) -> Result<(Vec<(String, Value)>, Value, bool), String> {
    let mut r = Rng::new(seed);
    // ---- donor: single voter, produces a real snapshot ----
    let mut p = Params::default();
    p.voters = 1;
    p.snapshot_threshold = r.range(8, 20);
    p.retained = 1;
    p.snapshot_chunk = *r.pick(&[16usize, 32, 64, 200]);
    let mut donor = Cluster::<FileKind>::new(p, seed, &dir.join("donor"));
    donor.bootstrap().await.map_err(|e| format!("{e:?}"))?;
    donor.wait_leader(5000).await.ok_or("donor: no leader")?;
    let cl = donor.client();
    let nkeys = 6u32;
    let keys: Vec<Vec<u8>> = (0..nkeys).map(|i| format!("s{i}").into_bytes()).collect();
    let writes = r.range(22, 50);
    for i in 0..writes {
        let k = keys[(i % nkeys as u64) as usize].clone();
        let (_, res) = cl.write(1, 1, ClientOp::Put { key: k, value: format!("d{i}-{}", "x".repeat((i % 7) as usize * 9)).into_bytes(), ttl: None }, 3000).await;
        if !matches!(res, ClientResult::WriteOk { .. }) {
            return Err(format!("donor write failed: {res:?}"));
        }
    }
    donor.sleep(800).await;
    let dn = donor.node(1).ok_or("donor gone")?;
    let Some(meta) = dn.smh.get_latest_snapshot_metadata() else { return Err("donor produced no snapshot".into()) };
    let mut chunks: Vec<SnapshotChunk> = Vec::new();
    {
        let mut st = dn.smh.load_snapshot_data(meta.clone()).await.map_err(|e| format!("load_snapshot_data: {e:?}"))?;
        while let Some(c) = st.next().await {
            chunks.push(c.map_err(|e| format!("chunk: {e:?}"))?);
        }
    }
    if chunks.is_empty() {
        return Err("empty chunk stream".into());
    }
    // what the snapshot may contain: the donor's applied sequence folded up to any applied index
    // from the recorded boundary on (generation runs concurrently with applies; how far the
    // content is ahead of its label is C16's subject, not this check's)
    let donor_states: Vec<(u64, Vec<Option<Vec<u8>>>)> = {
        use super::record::Ev;
        let evs = donor.rec.snapshot();
        let b = meta.last_included.map(|l| l.index).unwrap_or(0);
        let mut model = crate::model::KvRef::default();
        let mut out = Vec::new();
        for e in &evs {
            if let Ev::Apply { index, cmd, .. } = &e.ev {
                model.apply(cmd);
                if *index >= b {
                    out.push((*index, keys.iter().map(|k| model.get(k).cloned()).collect::<Vec<_>>()));
                }
            }
        }
        out
    };
    let donor_applied = dn.sm.last_applied().index;
    let boundary = meta.last_included.map(|l| l.index).unwrap_or(0);
    donor.shutdown_all().await;
    Cluster::<FileKind>::uninstall_hooks();

    // ---- victim: a follower of a 3-voter cluster that never elects, with its own state ----
    let mut p = Params::default();
    p.voters = 3;
    p.election_min = 600_000;
    p.election_max = 1_200_000;
    let mut vic = Cluster::<FileKind>::new(p, seed ^ 0x5151, &dir.join("victim"));
    vic.bootstrap_only(&[2]).await.map_err(|e| format!("{e:?}"))?;
    let ep = vic.net.endpoint(2).ok_or("no endpoint")?;
    // own state through a real AppendEntries (committed so that it is applied)
    {
        use d_engine_proto::client::WriteCommand;
        use d_engine_proto::common::Entry;
        use d_engine_proto::common::EntryPayload;
        use d_engine_proto::server::replication::AppendEntriesRequest;
        use prost::Message;
        let n_own = r.range(1, 5);
        let entries: Vec<Entry> = (1..=n_own)
            .map(|i| {
                let cmd = WriteCommand::insert(bytes::Bytes::from(keys[(i % nkeys as u64) as usize].clone()), bytes::Bytes::from(format!("own{i}").into_bytes()));
                let mut buf = bytes::BytesMut::with_capacity(cmd.encoded_len());
                cmd.encode(&mut buf).unwrap();
                Entry { index: i, term: 1, payload: Some(EntryPayload::command(buf.freeze())) }
            })
            .collect();
        let req = AppendEntriesRequest { term: 1, leader_id: 1, prev_log_index: 0, prev_log_term: 0, entries, leader_commit_index: n_own };
        let (tx, rx) = MaybeCloneOneshot::new();
        ep.event_tx.try_send(InboundEvent::AppendEntries(req, vec![tx])).map_err(|_| "victim setup send failed")?;
        let _ = tokio::time::timeout(Duration::from_millis(2000), rx).await;
        vic.sleep(300).await;
    }
    let before_content = content(&vic, 2, &keys).await;
    let before_applied = vic.node(2).ok_or("victim gone")?.sm.last_applied().index;
    let snap_dir = vic.node(2).ok_or("victim gone")?.cfg.raft.snapshot.snapshots_dir.clone();
    let before_files = dir_listing(&snap_dir);

    // ---- the stream ----
    let (stream, stall_at, ms) = mutate(&mut r, &chunks);
    let intact = stall_at.is_none() && same_stream(&stream, &chunks);
    let kind = ms.iter().map(|m| format!("{m:?}").split('(').next().unwrap_or("?").to_string()).collect::<Vec<_>>().join("+");
    let m = format!("{ms:?}");
    let (tx, rx) = mpsc::channel::<SnapshotChunk>(64);
    let (resp_tx, resp_rx) = MaybeCloneOneshot::new();
    ep.event_tx.try_send(InboundEvent::InstallSnapshotChunk(rx, resp_tx)).map_err(|_| "install send failed")?;
    let feeder = tokio::spawn(async move {
        for (i, c) in stream.into_iter().enumerate() {
            if stall_at == Some(i) {
                tokio::time::sleep(Duration::from_millis(4000)).await; // > receive_chunk_timeout (2 s)
            }
            if tx.send(c).await.is_err() {
                break;
            }
            tokio::time::sleep(Duration::from_millis(1)).await;
        }
    });
    let resp = tokio::time::timeout(Duration::from_millis(20_000), resp_rx).await;
    let _ = feeder.await;
    vic.sleep(300).await;
    let answered_success = matches!(&resp, Ok(Ok(Ok(r))) if r.success);
    let after_content = content(&vic, 2, &keys).await;
    let after_applied = vic.node(2).ok_or("victim gone")?.sm.last_applied().index;
    let after_files = dir_listing(&snap_dir);
    vic.shutdown_all().await;
    Cluster::<FileKind>::uninstall_hooks();

    let mut bad: Vec<(String, Value)> = Vec::new();
    let desc = json!({"seed": seed, "chunks": chunks.len(), "snapshot_boundary": boundary, "donor_applied": donor_applied, "mutation": kind.clone(), "faults": m.clone(), "victim_applied_before": before_applied});
    let show = |v: &Vec<Option<Vec<u8>>>| -> Value { json!(v.iter().map(|x| x.as_ref().map(|b| String::from_utf8_lossy(b).chars().take(12).collect::<String>())).collect::<Vec<_>>()) };
    let new_final_files: Vec<String> = after_files.keys().filter(|k| !before_files.contains_key(*k) && !k.contains("temp") && !k.contains(".part") && !k.contains("tmp")).cloned().collect();
    let changed_files: Vec<String> = before_files.iter().filter(|(k, v)| after_files.get(*k) != Some(*v)).map(|(k, _)| k.clone()).collect();
    if intact {
        if !answered_success {
            bad.push(("intact-stream-rejected".into(), json!({"response": format!("{:?}", resp.as_ref().map(|r| r.as_ref().map(|x| x.as_ref().map(|y| y.success))))})));
        } else {
            // the donor's snapshot content may be ahead of its boundary (C16's subject): accept
            // the donor's content at snapshot time
            if !donor_states.iter().any(|(_, st)| *st == after_content) {
                bad.push(("installed-state-is-no-state-of-the-snapshot-creator".into(), json!({"victim": show(&after_content), "creator_states_from_boundary_on": donor_states.iter().map(|(i, st)| json!([i, show(st)])).collect::<Vec<_>>()})));
            }
            if after_applied != boundary {
                bad.push(("applied-index-after-install-differs-from-snapshot-boundary".into(), json!({"after": after_applied, "boundary": boundary})));
            }
        }
    } else {
        if answered_success {
            bad.push((format!("mutated-stream-answered-success[{kind}]"), json!({"mutation": m.clone()})));
        }
        if after_content != before_content || after_applied != before_applied {
            bad.push((format!("state-changed-by-rejected-transfer[{kind}]"), json!({"before": show(&before_content), "after": show(&after_content), "applied_before": before_applied, "applied_after": after_applied})));
        }
        if !changed_files.is_empty() {
            bad.push((format!("existing-snapshot-files-changed-by-rejected-transfer[{kind}]"), json!({"files": changed_files})));
        }
        if !new_final_files.is_empty() {
            bad.push((format!("final-snapshot-file-left-by-rejected-transfer[{kind}]"), json!({"files": new_final_files})));
        }
    }
    Ok((bad, desc, chunks.len() >= 2))
}

pub fn run_c17(seed: u64, runs: u64, scratch: &Path, rep: &mut ShardReport, budget_s: u64) {
    let mut seeder = Rng::new(seed ^ 0xC17);
    let t0 = std::time::Instant::now();
    for run_no in 0..runs {
        if t0.elapsed().as_secs() >= budget_s {
            rep.notes.push(format!("time budget reached after {run_no} runs"));
            break;
        }
        let s = seeder.next() >> 1;
        let dir = scratch.join(format!("c17-{run_no}"));
        let _ = std::fs::create_dir_all(&dir);
        let rt = fresh_rt();
        let out = rt.block_on(one(s, &dir));
        drop(rt);
        let _ = std::fs::remove_dir_all(&dir);
        match out {
            Err(e) => rep.inconclusive.push(format!("seed {s}: {e}")),
            Ok((bad, desc, nontrivial)) => {
                let mk = desc["mutation"].as_str().unwrap_or("").to_string();
                rep.eval(nontrivial, fnv64(format!("{mk}{}", desc["chunks"]).as_bytes()));
                rep.count(&format!("mutation_{mk}"), 1);
                rep.count("chunks_streamed", desc["chunks"].as_u64().unwrap_or(0));
                if rep.samples.len() < 3 {
                    rep.sample(desc.clone());
                }
                for (sig, d) in bad {
                    rep.violation("C17", &sig, json!({"detail": d}), desc.clone());
                }
            }
        }
    }
}
