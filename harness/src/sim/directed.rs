//! Directed (non-chaos) scenarios on the simulated cluster: C13 routing grid, C35 multi-get
//! alignment, C37 write round trip.

use std::collections::BTreeMap;
use std::path::Path;

use d_engine_core::Command;
use d_engine_core::config::ReadConsistencyPolicy;
use serde_json::Value;
use serde_json::json;

use super::cluster::Cluster;
use super::cluster::FileKind;
use super::cluster::Params;
use super::net::heal;
use super::net::partition;
use super::record::ClientOp;
use super::record::ClientResult;
use super::record::Ev;
use super::record::result_json;
use crate::util::Rng;
use crate::util::ShardReport;
use crate::util::fnv64;
use crate::util::show_bytes;

fn fresh_rt() -> tokio::runtime::Runtime {
    tokio::runtime::Builder::new_current_thread().enable_all().start_paused(true).build().expect("rt")
}

fn pol(p: &str) -> ReadConsistencyPolicy {
    super::cluster::policy_of(p)
}

// ------------------------------------------------------------------------------------------
// C37
// ------------------------------------------------------------------------------------------

fn rand_bytes(r: &mut Rng, allow_empty: bool) -> Vec<u8> {
    let n = match r.below(6) {
        0 if allow_empty => 0,
        1 => 1,
        2 => r.range(2, 8),
        3 => r.range(8, 64),
        _ => r.range(1, 16),
    } as usize;
    (0..n).map(|_| r.next() as u8).collect()
}

/// TTL 0 is documented on the wire as "no expiration" (client_api.proto: "0 means no
/// expiration (default)"), so Some(0) and None denote the same TTL.
fn eff_ttl(t: Option<u64>) -> Option<u64> {
    match t {
        Some(0) | None => None,
        x => x,
    }
}

pub fn run_c37(seed: u64, runs: u64, scratch: &Path, rep: &mut ShardReport) {
    let dir = scratch.join(format!("c37-{seed}"));
    let _ = std::fs::create_dir_all(&dir);
    let rt = fresh_rt();
    rt.block_on(async {
        let mut p = Params::default();
        p.voters = 1;
        let mut c = Cluster::<FileKind>::new(p, seed, &dir);
        if c.bootstrap().await.is_err() || c.wait_leader(5000).await.is_none() {
            rep.inconclusive.push("c37: no leader".into());
            return;
        }
        let cl = c.client();
        let mut r = Rng::new(seed ^ 0x37);
        let mut seq = 0u64;
        for _ in 0..runs {
            seq += 1;
            let key = {
                let mut k = rand_bytes(&mut r, true);
                if !k.is_empty() && r.chance(1, 2) {
                    k.extend_from_slice(format!("#{seq}").as_bytes());
                }
                k
            };
            let val = rand_bytes(&mut r, true);
            let kind = r.below(4);
            let ttl = match r.below(8) {
                0 => Some(0),
                1 => Some(1),
                2 => Some(r.range(2, 100_000)),
                3 => Some(1u64 << 31),
                _ => None,
            };
            let op = match kind {
                0 => ClientOp::Put { key: key.clone(), value: val.clone(), ttl: None },
                1 => ClientOp::Put { key: key.clone(), value: val.clone(), ttl },
                2 => ClientOp::Del { key: key.clone() },
                _ => ClientOp::Cas {
                    key: key.clone(),
                    expected: match r.below(3) {
                        0 => None,
                        1 => Some(vec![]),
                        _ => Some(rand_bytes(&mut r, false)),
                    },
                    new: val.clone(),
                },
            };
            let before = c.rec.len();
            let (opid, res) = cl.write(7, 1, op.clone(), 3000).await;
            // the apply that followed
            let evs = c.rec.snapshot();
            let applied: Vec<Command> = evs[before..]
                .iter()
                .filter_map(|e| match &e.ev {
                    Ev::Apply { cmd, .. } if !matches!(cmd, Command::Noop) => Some(cmd.clone()),
                    _ => None,
                })
                .collect();
            let class = fnv64(format!("{}{}{}{:?}", kind, key.is_empty(), val.is_empty(), ttl.map(|t| t.min(3))).as_bytes());
            rep.eval(true, class);
            let desc = json!({"op": super::record::op_json(&op), "result": result_json(&res), "applied": applied.iter().map(crate::model::show_cmd).collect::<Vec<_>>()});
            if rep.samples.len() < 3 {
                rep.sample(desc.clone());
            }
            match &res {
                ClientResult::WriteOk { .. } => {}
                ClientResult::Rejected { why } if key.is_empty() || why.contains("InvalidArgument") => {
                    rep.count("rejected_by_validation", 1);
                    if !applied.is_empty() {
                        rep.violation("C37", "rejected-write-was-applied", desc, json!({"seed": seed, "op": opid}));
                    }
                    continue;
                }
                other => {
                    rep.inconclusive.push(format!("c37 op {opid}: {other:?}"));
                    continue;
                }
            }
            if applied.len() != 1 {
                rep.violation("C37", "write-applied-zero-or-many-times", desc, json!({"seed": seed, "op": opid}));
                continue;
            }
            let ok = match (&op, &applied[0]) {
                (ClientOp::Put { key, value, ttl }, Command::Insert { key: k2, value: v2, ttl_secs }) => {
                    key[..] == k2[..] && value[..] == v2[..] && eff_ttl(*ttl) == eff_ttl(*ttl_secs)
                }
                (ClientOp::Del { key }, Command::Delete { key: k2 }) => key[..] == k2[..],
                (ClientOp::Cas { key, expected, new }, Command::CompareAndSwap { key: k2, expected: e2, value: v2 }) => {
                    key[..] == k2[..] && new[..] == v2[..] && expected.as_deref() == e2.as_ref().map(|b| &b[..])
                }
                _ => false,
            };
            if !ok {
                let what = match (&op, &applied[0]) {
                    (ClientOp::Cas { expected, .. }, Command::CompareAndSwap { expected: e2, .. })
                        if expected.as_deref() != e2.as_ref().map(|b| &b[..]) =>
                    {
                        "cas-expected-value-changed"
                    }
                    (ClientOp::Put { ttl, .. }, Command::Insert { ttl_secs, .. }) if eff_ttl(*ttl) != eff_ttl(*ttl_secs) => "ttl-changed",
                    _ => "operation-changed",
                };
                rep.violation("C37", what, desc, json!({"seed": seed, "op": opid}));
            }
        }
        c.shutdown_all().await;
    });
    Cluster::<FileKind>::uninstall_hooks();
    drop(rt);
    let _ = std::fs::remove_dir_all(&dir);
}

// ------------------------------------------------------------------------------------------
// C13 routing grid
// ------------------------------------------------------------------------------------------

pub fn run_c13(seed: u64, scratch: &Path, rep: &mut ShardReport, only_cfg: Option<u64>) {
    let defaults = ["linearizable", "lease", "eventual"];
    let mut cfg_no = 0u64;
    for default in defaults {
        for allow in [true, false] {
            cfg_no += 1;
            if let Some(o) = only_cfg
                && o != cfg_no
            {
                continue;
            }
            let dir = scratch.join(format!("c13-{cfg_no}"));
            let _ = std::fs::create_dir_all(&dir);
            let rt = fresh_rt();
            rt.block_on(async {
                let mut p = Params::default();
                p.default_policy = pol(default);
                p.allow_override = allow;
                p.learner_throttle_ms = 1_000_000; // keep the learner a learner
                let mut c = Cluster::<FileKind>::new(p, seed ^ cfg_no, &dir);
                if c.bootstrap().await.is_err() {
                    rep.inconclusive.push("c13 bootstrap".into());
                    return;
                }
                let Some(leader) = c.wait_leader(6000).await else {
                    rep.inconclusive.push("c13: no leader".into());
                    return;
                };
                let cl = c.client();
                for i in 0..3u32 {
                    let _ = cl
                        .write(1, leader, ClientOp::Put { key: format!("k{i}").into_bytes(), value: format!("v{i}").into_bytes(), ttl: None }, 3000)
                        .await;
                }
                // learner (node 4) joins; keeps role Learner because promotion check is throttled
                let _ = c.add_learner(4).await;
                c.refresh(&cl);
                c.sleep(1500).await;
                // roles
                let follower = (1..=3).find(|i| *i != leader).unwrap();
                let cand = (1..=3).find(|i| *i != leader && *i != follower).unwrap();
                let mut roles: Vec<(&str, u32)> = vec![("leader", leader), ("follower", follower), ("learner", 4)];
                for (phase, _) in [("normal", 0), ("candidate", 1)] {
                    if phase == "candidate" {
                        // isolate one voter so that it becomes a candidate
                        let rest: Vec<u32> = c.slots.keys().cloned().filter(|i| *i != cand).collect();
                        partition(&c.net, &[vec![cand], rest]);
                        c.sleep(1500).await;
                        roles = vec![("candidate", cand)];
                    }
                    for (role_name, node) in roles.clone() {
                        let actual_role = c.role_of(node).map(|r| r.role).unwrap_or(0);
                        for requested in [None, Some("linearizable"), Some("lease"), Some("eventual")] {
                            for path in ["cmd", "embedded", "actor"] {
                                if requested.is_none() && path != "cmd" {
                                    // fast-path handles always carry an explicit policy
                                    continue;
                                }
                                let effective = match requested {
                                    Some(r) if allow => r,
                                    _ => default,
                                };
                                let before = c.rec.len();
                                let (opid, res) = cl.read(9, node, vec![b"k1".to_vec()], requested, path, 1200).await;
                                let evs = c.rec.snapshot();
                                let served: Vec<(u32, &'static str, &'static str)> = evs[before..]
                                    .iter()
                                    .filter_map(|e| match &e.ev {
                                        Ev::ReadServed { node, policy, path, .. } => Some((*node, *policy, *path)),
                                        _ => None,
                                    })
                                    .collect();
                                let cell = json!({"role": role_name, "node": node, "role_code": actual_role, "default": default, "allow_override": allow, "requested": requested, "path": path, "effective": effective,
                                    "served": served.iter().map(|s| json!([s.0, s.1, s.2])).collect::<Vec<_>>(), "result": result_json(&res)});
                                let class = fnv64(format!("{role_name}{default}{allow}{requested:?}{path}").as_bytes());
                                rep.eval(true, class);
                                if rep.samples.len() < 4 {
                                    rep.sample(cell.clone());
                                }
                                let is_leader = role_name == "leader";
                                // (1) a non-leader never answers linearizable/lease reads from local state
                                for (n, policy, _) in &served {
                                    if *n == node && !is_leader && (*policy == "linearizable" || *policy == "lease") {
                                        rep.violation("C13", &format!("non-leader-served-{policy}-read-locally[{path}]"), cell.clone(), json!({"seed": seed, "cfg": cfg_no, "op": opid}));
                                    }
                                }
                                if !is_leader && (effective == "linearizable" || effective == "lease") {
                                    // must not be served with local data, must be told it is not leader
                                    let served_here = served.iter().any(|(n, _, _)| *n == node);
                                    match &res {
                                        ClientResult::ReadOk { .. } if served_here => {
                                            rep.violation("C13", &format!("non-leader-answered-{effective}-read[{path}]:served-as-{}", served.iter().find(|(n, _, _)| *n == node).map(|s| s.1).unwrap_or("?")), cell.clone(), json!({"seed": seed, "cfg": cfg_no, "op": opid}));
                                        }
                                        ClientResult::ReadOk { .. } => {
                                            rep.violation("C13", &format!("non-leader-answered-{effective}-read[{path}]:unobserved-serve-point"), cell.clone(), json!({"seed": seed, "cfg": cfg_no, "op": opid}));
                                        }
                                        ClientResult::Rejected { .. } => {}
                                        ClientResult::Indeterminate { why } => {
                                            if !(why.contains("NotLeader") || why.contains("Not leader") || why.contains("not leader")) && role_name != "candidate" {
                                                rep.count("non_leader_error_without_not_leader_hint", 1);
                                            }
                                        }
                                        _ => {}
                                    }
                                }
                                // (2) override disallowed => served under the default policy
                                if !allow
                                    && let ClientResult::ReadOk { .. } = &res
                                {
                                    for (n, policy, _) in &served {
                                        if *n == node && *policy != default {
                                            rep.violation("C13", &format!("override-disallowed-but-served-as-{policy}[{path}]"), cell.clone(), json!({"seed": seed, "cfg": cfg_no, "op": opid}));
                                        }
                                    }
                                }
                                // (3) override allowed => served under the requested policy
                                if allow
                                    && let (Some(rq), ClientResult::ReadOk { .. }) = (requested, &res)
                                {
                                    for (n, policy, _) in &served {
                                        if *n == node && *policy != rq {
                                            rep.violation("C13", &format!("requested-{rq}-served-as-{policy}[{path}]"), cell.clone(), json!({"seed": seed, "cfg": cfg_no, "op": opid}));
                                        }
                                    }
                                }
                            }
                        }
                    }
                }
                heal(&c.net);
                c.shutdown_all().await;
            });
            Cluster::<FileKind>::uninstall_hooks();
            drop(rt);
            let _ = std::fs::remove_dir_all(&dir);
        }
    }
    rep.exhaustive = only_cfg.is_none();
}

// ------------------------------------------------------------------------------------------
// C35 multi-get alignment
// ------------------------------------------------------------------------------------------

pub fn run_c35(seed: u64, runs: u64, scratch: &Path, rep: &mut ShardReport) {
    let dir = scratch.join(format!("c35-{seed}"));
    let _ = std::fs::create_dir_all(&dir);
    let rt = fresh_rt();
    rt.block_on(async {
        let mut c = Cluster::<FileKind>::new(Params::default(), seed, &dir);
        if c.bootstrap().await.is_err() {
            rep.inconclusive.push("c35 bootstrap".into());
            return;
        }
        let Some(leader) = c.wait_leader(6000).await else {
            rep.inconclusive.push("c35: no leader".into());
            return;
        };
        let cl = c.client();
        let mut r = Rng::new(seed ^ 0x35);
        let mut model: BTreeMap<Vec<u8>, Vec<u8>> = BTreeMap::new();
        let keyspace: Vec<Vec<u8>> = (0..8).map(|i| format!("key{i}").into_bytes()).collect();
        for _ in 0..runs {
            // mutate state a little
            for _ in 0..r.range(0, 3) {
                let k = r.pick(&keyspace).clone();
                if r.chance(1, 4) {
                    let (_, res) = cl.write(3, leader, ClientOp::Del { key: k.clone() }, 3000).await;
                    if matches!(res, ClientResult::WriteOk { .. }) {
                        model.remove(&k);
                    }
                } else {
                    let v = if r.chance(1, 4) { vec![] } else { format!("v{}", r.below(1000)).into_bytes() };
                    let (_, res) = cl.write(3, leader, ClientOp::Put { key: k.clone(), value: v.clone(), ttl: None }, 3000).await;
                    if matches!(res, ClientResult::WriteOk { .. }) {
                        model.insert(k, v);
                    }
                }
            }
            c.sleep(150).await; // followers apply
            let n = r.range(1, 8) as usize;
            let mut keys: Vec<Vec<u8>> = (0..n)
                .map(|_| if r.chance(1, 5) { format!("missing{}", r.below(5)).into_bytes() } else { r.pick(&keyspace).clone() })
                .collect();
            if n >= 2 && r.chance(1, 2) {
                let d = keys[0].clone();
                keys.push(d); // duplicate
            }
            let path = *r.pick(&["cmd", "embedded", "actor"]);
            let policy = *r.pick(&["linearizable", "lease", "eventual"]);
            let node = if policy == "eventual" && r.chance(1, 2) { *r.pick(&c.live_ids()) } else { leader };
            let (opid, res) = cl.read(4, node, keys.clone(), Some(policy), path, 3000).await;
            let expected: Vec<Option<Vec<u8>>> = keys.iter().map(|k| model.get(k).cloned()).collect();
            let class = fnv64(format!("{path}{policy}{}{}", keys.len(), expected.iter().filter(|e| e.is_none()).count()).as_bytes());
            let dup = keys.len() != keys.iter().collect::<std::collections::BTreeSet<_>>().len();
            rep.eval(dup || expected.iter().any(|e| e.is_none()) || expected.iter().any(|e| e.as_ref().is_some_and(|v| v.is_empty())), class);
            let cell = json!({"keys": keys.iter().map(|k| show_bytes(k)).collect::<Vec<_>>(), "path": path, "policy": policy, "node": node,
                "expected": expected.iter().map(|e| e.as_ref().map(|v| show_bytes(v))).collect::<Vec<_>>(), "result": result_json(&res)});
            if rep.samples.len() < 3 {
                rep.sample(cell.clone());
            }
            match &res {
                ClientResult::ReadOk { values } => {
                    if values.len() != keys.len() {
                        rep.violation("C35", &format!("result-count-differs[{path}]"), cell, json!({"seed": seed, "op": opid}));
                    } else if *values != expected {
                        let empties = expected.iter().zip(values).any(|(e, g)| e.as_ref().is_some_and(|v| v.is_empty()) && g.is_none());
                        let sig = if empties { "empty-value-reported-absent" } else { "value-misaligned-or-wrong" };
                        rep.violation("C35", &format!("{sig}[{path}]"), cell, json!({"seed": seed, "op": opid}));
                    }
                }
                _ => {
                    rep.count("reads_not_ok", 1);
                }
            }
        }
        c.shutdown_all().await;
    });
    Cluster::<FileKind>::uninstall_hooks();
    drop(rt);
    let _ = std::fs::remove_dir_all(&dir);
}

pub fn _unused(_: Value) {}
