//! Seeded scenario generator + runner for the simulated cluster.

use std::collections::BTreeMap;
use std::path::Path;
use std::sync::Arc;
use std::sync::atomic::AtomicBool;
use std::sync::atomic::AtomicU64;
use std::sync::atomic::Ordering;
use std::time::Duration;

use d_engine_core::RaftLog;
use serde_json::Value;
use serde_json::json;

use super::cluster::ClientHandle;
use super::cluster::Cluster;
use super::cluster::EngineKind;
use super::cluster::FileKind;
use super::cluster::Params;
use super::cluster::RocksKind;
use super::monitor::Finding;
use super::net::heal;
use super::net::partition;
use super::record::ClientOp;
use super::record::ClientResult;
use super::record::Ev;
use super::record::ev_json;
use crate::util::Rng;

#[derive(Clone, Debug)]
pub struct Plan {
    pub family: String,
    pub seed: u64,
    pub rocks: bool,
    pub params: Params,
    pub duration_ms: u64,
    pub quiet_ms: u64,
    pub clients: u32,
    pub keys: u32,
    pub op_gap_ms: (u64, u64),
    /// bursty clients: 3 of 4 gaps are drawn from `op_gap_ms`, 1 of 4 is a pause of 80..400 ms
    pub bursty: bool,
    /// weights for client ops: put, del, cas, read_lin, read_lease, read_eventual
    pub mix: [u64; 6],
    /// weights for fault actions (see `Action`)
    pub w_isolate_leader: u64,
    pub w_partition_minority: u64,
    pub w_oneway: u64,
    pub w_heal: u64,
    pub w_crash: u64,
    pub w_restart: u64,
    pub w_stop_restart: u64,
    pub w_delay: u64,
    pub w_tier_n: u64,
    pub w_apply_lag: u64,
    pub w_none: u64,
    pub phase_ms: (u64, u64),
    pub max_down: u32,
    pub allow_tier_n: bool,
    pub read_paths: Vec<&'static str>,
    pub client_timeout_ms: u64,
    pub full_restart: bool,
    /// membership: number of learners to add during the run
    pub add_learners: u32,
    /// scripted fault schedule (directed scenarios) instead of the random fault loop
    pub script: Vec<Step>,
    /// percentage of granted votes followed by an immediate crash of the voter
    pub vote_crash_pct: u64,
    /// explicit key names (watch family: '/'-structured keys); empty = k0, k1, ...
    pub key_names: Vec<Vec<u8>>,
}

/// One step of a directed scenario. Node roles are resolved when the step runs.
#[derive(Clone, Debug)]
pub enum Step {
    /// sleep (virtual ms) with checkpoints
    Sleep(u64),
    /// remember the current leader under a name (0..3)
    MarkLeader(usize),
    /// wait until a leader different from mark `usize` exists (up to ms), remember it as mark `usize2`
    WaitOtherLeader(usize, usize, u64),
    /// remember as mark `2` a live voter that is neither mark 0 nor mark 1
    MarkThird(usize, usize, usize),
    /// isolate the marked node from everybody else
    Isolate(usize),
    /// one-way isolation: nothing the marked node sends gets through, it still receives
    IsolateOutbound(usize),
    /// groups of marks; unmarked nodes go with the first group
    Partition(Vec<Vec<usize>>),
    Heal,
    Crash(usize),
    Restart(usize),
    ApplyLag(usize, u64),
}


impl Plan {
    pub fn describe(&self) -> Value {
        json!({
            "family": self.family, "seed": self.seed, "engine": if self.rocks {"rocksdb"} else {"file"},
            "voters": self.params.voters, "duration_ms": self.duration_ms, "clients": self.clients, "keys": self.keys,
            "election_ms": [self.params.election_min, self.params.election_max], "heartbeat_ms": self.params.heartbeat_ms,
            "lease_ms": self.params.lease_ms, "cap": self.params.per_request_cap, "snapshot_threshold": self.params.snapshot_threshold,
            "scripted": !self.script.is_empty(), "vote_crash_pct": self.vote_crash_pct, "tier_n": self.allow_tier_n, "add_learners": self.add_learners, "full_restart": self.full_restart,
        })
    }
}

pub fn base_plan(family: &str, seed: u64) -> Plan {
    let mut r = Rng::new(seed ^ crate::util::fnv64(family.as_bytes()));
    let mut p = Params::default();
    p.voters = *r.pick(&[3, 3, 3, 5]);
    p.per_request_cap = *r.pick(&[2, 5, 100]);
    Plan {
        family: family.to_string(),
        seed,
        rocks: false,
        params: p,
        duration_ms: r.range(4000, 9000),
        quiet_ms: 4000,
        clients: r.range(2, 4) as u32,
        keys: r.range(2, 4) as u32,
        op_gap_ms: (1, 40),
        bursty: false,
        mix: [50, 8, 20, 15, 0, 0],
        w_isolate_leader: 10,
        w_partition_minority: 10,
        w_oneway: 5,
        w_heal: 15,
        w_crash: 8,
        w_restart: 15,
        w_stop_restart: 0,
        w_delay: 5,
        w_tier_n: 0,
        w_apply_lag: 3,
        w_none: 10,
        phase_ms: (150, 900),
        max_down: 1,
        allow_tier_n: false,
        read_paths: vec!["cmd"],
        client_timeout_ms: 2500,
        full_restart: false,
        add_learners: 0,
        script: Vec::new(),
        key_names: Vec::new(),
        vote_crash_pct: 0,
    }
}

/// Property-directed families bias the schedule toward the windows the property names.
pub fn plan_for(family: &str, seed: u64) -> Plan {
    let mut pl = base_plan(family, seed);
    let mut r = Rng::new(seed.wrapping_mul(31) ^ 0xFA11);
    match family {
        // election heavy: many forced elections, vote-window crashes
        "election" => {
            pl.w_isolate_leader = 30;
            pl.w_partition_minority = 15;
            pl.w_oneway = 10;
            pl.w_crash = 12;
            pl.w_restart = 25;
            pl.phase_ms = (100, 700);
            pl.mix = [60, 5, 10, 10, 0, 0];
            pl.params.election_min = *r.pick(&[150, 300]);
            pl.params.election_max = pl.params.election_min * 2;
            pl.params.lease_ms = pl.params.election_min / 2;
            pl.allow_tier_n = r.chance(1, 3);
            if pl.allow_tier_n {
                pl.w_tier_n = 10;
            }
            // C02 window: crash a voter the moment its grant has left it, restart it while the
            // election it voted in is still being contested
            pl.vote_crash_pct = *r.pick(&[0, 5, 15, 30]);
        }
        // replication heavy: small caps, leader churn, stale tails, snapshots
        "replication" => {
            pl.params.per_request_cap = *r.pick(&[1, 2, 3, 5]);
            pl.op_gap_ms = (0, 8);
            pl.clients = r.range(3, 6) as u32;
            pl.mix = [70, 5, 15, 5, 0, 0];
            pl.w_isolate_leader = 20;
            pl.w_partition_minority = 20;
            pl.w_crash = 10;
            pl.w_restart = 20;
            pl.w_delay = 10;
            pl.allow_tier_n = r.chance(1, 2);
            if pl.allow_tier_n {
                pl.w_tier_n = 12;
            }
            if r.chance(1, 2) {
                pl.params.snapshot_threshold = r.range(20, 60);
                pl.params.retained = *r.pick(&[1, 2, 5]);
            }
        }
        // client heavy: acknowledged-write durability, crashes between ack and persist
        "client" => {
            pl.params.voters = *r.pick(&[1, 3, 3, 5]);
            pl.op_gap_ms = (0, 15);
            pl.clients = r.range(3, 6) as u32;
            pl.mix = [45, 10, 25, 20, 0, 0];
            pl.w_crash = 18;
            pl.w_restart = 25;
            pl.w_isolate_leader = 12;
            pl.max_down = if pl.params.voters >= 5 { 2 } else if pl.params.voters >= 3 { 1 } else { 0 };
            pl.full_restart = r.chance(1, 3);
            pl.params.idle_flush_ms = *r.pick(&[50, 200, 1000]);
            if pl.params.voters == 1 {
                pl.w_isolate_leader = 0;
                pl.w_partition_minority = 0;
                pl.w_oneway = 0;
                pl.w_crash = 0;
                pl.full_restart = true;
            }
        }
        // read heavy: leader isolation longer than the lease, apply lag, asymmetric partitions
        "reads" => {
            pl.mix = [30, 5, 10, 25, 20, 10];
            pl.read_paths = vec!["cmd", "embedded", "actor"];
            pl.clients = r.range(4, 8) as u32;
            pl.op_gap_ms = (0, 10);
            pl.bursty = true;
            pl.keys = r.range(3, 6) as u32;
            pl.w_isolate_leader = 30;
            pl.w_oneway = 25;
            pl.w_partition_minority = 10;
            pl.w_apply_lag = 15;
            pl.w_crash = 2;
            pl.w_restart = 10;
            pl.w_delay = 15;
            pl.params.election_min = 300;
            pl.params.election_max = 600;
            pl.params.lease_ms = *r.pick(&[100, 200, 280]);
        }
        "membership" => {
            pl.params.voters = *r.pick(&[1, 3, 3]);
            pl.add_learners = r.range(1, 3) as u32;
            pl.duration_ms = r.range(8000, 14000);
            pl.w_isolate_leader = 12;
            pl.w_crash = 5;
            pl.w_restart = 15;
            pl.w_apply_lag = 10;
            pl.params.learner_throttle_ms = 50;
            if pl.params.voters == 1 {
                pl.w_partition_minority = 0;
            }
        }
        "compaction" => {
            pl.params.snapshot_threshold = r.range(10, 40);
            pl.params.retained = *r.pick(&[1, 2, 5]);
            pl.op_gap_ms = (0, 6);
            pl.clients = r.range(3, 5) as u32;
            pl.mix = [75, 5, 15, 5, 0, 0];
            pl.w_crash = 10;
            pl.w_restart = 18;
            pl.w_partition_minority = 20;
            pl.duration_ms = r.range(6000, 12000);
            pl.quiet_ms = 15_000;
            pl.rocks = r.chance(1, 3);
        }
        // C05 directed chain: a deposed leader with an uncommitted tail rejoins while the new
        // leader can reach nobody else, then the new leader crashes and the others elect.
        "chain-deposed-leader-rejoin" => {
            pl.params.voters = 3;
            pl.params.per_request_cap = *r.pick(&[1, 2, 3, 5]);
            pl.op_gap_ms = (0, 10);
            pl.clients = r.range(3, 5) as u32;
            pl.mix = [80, 5, 10, 5, 0, 0];
            pl.duration_ms = 0;
            let crash_new_leader = r.chance(2, 3);
            pl.script = vec![
                Step::Sleep(r.range(300, 900)),
                Step::MarkLeader(0),
                // one-way isolation lets the new leader open its stream to the deposed one and
                // lose it before the first acknowledgement (next_index falls back to 1)
                if r.chance(1, 2) { Step::IsolateOutbound(0) } else { Step::Isolate(0) },
                Step::WaitOtherLeader(0, 1, 4000),
                Step::Sleep(r.range(150, 700)),
                Step::MarkThird(0, 1, 2),
                Step::Partition(vec![vec![0, 1], vec![2]]),
                Step::Sleep(r.range(400, 1600)),
                if crash_new_leader { Step::Crash(1) } else { Step::Isolate(1) },
                Step::Partition(vec![vec![0, 2], vec![1]]),
                Step::Sleep(r.range(1500, 3000)),
                Step::Restart(1),
                Step::Heal,
                Step::Sleep(r.range(300, 1000)),
            ];
        }
        // watch streams: '/'-structured keys, exact and prefix watchers with fast / slow /
        // stalling consumers, small per-watcher and broadcast buffers so that both overflow
        "watch" => {
            pl.key_names = vec![b"/a/x".to_vec(), b"/a/y".to_vec(), b"/b/x".to_vec(), b"/ab/x".to_vec(), b"/a/b/z".to_vec(), b"/a".to_vec()];
            pl.keys = pl.key_names.len() as u32;
            pl.clients = r.range(3, 7) as u32;
            pl.op_gap_ms = (0, 6);
            pl.bursty = true;
            pl.mix = [55, 15, 25, 5, 0, 0];
            pl.params.watch_buf = *r.pick(&[2, 4, 8, 64]);
            pl.params.watch_queue = *r.pick(&[4, 8, 32, 1000]);
            pl.params.watch_hb_ms = *r.pick(&[0, 100, 400]);
            pl.params.max_batch = *r.pick(&[8, 32, 100]);
            pl.w_crash = 4;
            pl.w_restart = 12;
            pl.w_isolate_leader = 8;
            pl.w_partition_minority = 5;
            pl.w_apply_lag = 6;
            pl.duration_ms = r.range(3000, 7000);
        }
        "liveness" => {
            pl.w_heal = 25;
            pl.w_crash = 12;
            pl.w_restart = 20;
            pl.quiet_ms = 30_000;
            pl.rocks = r.chance(1, 4);
            pl.duration_ms = r.range(3000, 7000);
            if r.chance(1, 3) {
                pl.params.snapshot_threshold = r.range(15, 40);
            }
        }
        _ => {}
    }
    if pl.params.voters == 1 {
        pl.max_down = 0;
    }
    pl
}

#[derive(Debug, Default, Clone)]
pub struct RunOutcome {
    pub findings: Vec<Finding>,
    pub counters: BTreeMap<String, u64>,
    pub signature: u64,
    pub virtual_ms: u64,
    pub events: usize,
    pub inconclusive: Option<String>,
    /// trace of the last events (only filled when there are findings)
    pub trace_tail: Vec<Value>,
    /// full recorded history (only kept when there are findings)
    pub all_events: Vec<super::record::Rec>,
    pub extra: BTreeMap<String, Value>,
}

fn key_of(i: u32) -> Vec<u8> {
    format!("k{i}").into_bytes()
}

fn plan_key(plan: &Plan, i: u32) -> Vec<u8> {
    if plan.key_names.is_empty() { key_of(i) } else { plan.key_names[i as usize % plan.key_names.len()].clone() }
}

async fn client_loop(
    cl: ClientHandle,
    cid: u32,
    plan: Plan,
    stop: Arc<AtomicBool>,
    leader_hint: Arc<AtomicU64>,
    seqs: Arc<AtomicU64>,
) {
    let mut r = Rng::new(plan.seed ^ (cid as u64).wrapping_mul(0x9E37));
    let total: u64 = plan.mix.iter().sum();
    // last value this client believes a key holds (to build CAS chains that can succeed)
    let mut believed: BTreeMap<Vec<u8>, Option<Vec<u8>>> = BTreeMap::new();
    while !stop.load(Ordering::Relaxed) {
        let gap = if plan.bursty && r.chance(1, 4) { r.range(80, 400) } else { r.range(plan.op_gap_ms.0, plan.op_gap_ms.1) };
        tokio::time::sleep(Duration::from_millis(gap)).await;
        if stop.load(Ordering::Relaxed) {
            break;
        }
        let nodes = cl.nodes();
        if nodes.is_empty() {
            tokio::time::sleep(Duration::from_millis(50)).await;
            continue;
        }
        let hint = leader_hint.load(Ordering::Relaxed) as u32;
        let node = if hint != 0 && nodes.contains(&hint) && r.chance(4, 5) { hint } else { *r.pick(&nodes) };
        let key = plan_key(&plan, r.below(plan.keys as u64) as u32);
        let seq = seqs.fetch_add(1, Ordering::Relaxed);
        let val = format!("c{cid}-{seq}").into_bytes();
        let mut x = r.below(total.max(1));
        let mut kind = 0;
        for (i, w) in plan.mix.iter().enumerate() {
            if x < *w {
                kind = i;
                break;
            }
            x -= *w;
        }
        match kind {
            0 => {
                let (_, res) = cl
                    .write(cid, node, ClientOp::Put { key: key.clone(), value: val.clone(), ttl: None }, plan.client_timeout_ms)
                    .await;
                if matches!(res, ClientResult::WriteOk { .. }) {
                    believed.insert(key, Some(val));
                }
            }
            1 => {
                let (_, res) = cl.write(cid, node, ClientOp::Del { key: key.clone() }, plan.client_timeout_ms).await;
                if matches!(res, ClientResult::WriteOk { .. }) {
                    believed.insert(key, None);
                }
            }
            2 => {
                let expected = if r.chance(3, 4) { believed.get(&key).cloned().unwrap_or(None) } else { Some(b"nope".to_vec()) };
                let (_, res) = cl
                    .write(cid, node, ClientOp::Cas { key: key.clone(), expected, new: val.clone() }, plan.client_timeout_ms)
                    .await;
                if matches!(res, ClientResult::WriteOk { succeeded: true }) {
                    believed.insert(key, Some(val));
                }
            }
            k => {
                let policy = match k {
                    3 => Some("linearizable"),
                    4 => Some("lease"),
                    _ => Some("eventual"),
                };
                let path = *r.pick(&plan.read_paths);
                let (_, res) = cl.read(cid, node, vec![key.clone()], policy, path, plan.client_timeout_ms).await;
                if let ClientResult::ReadOk { values } = &res
                    && k == 3
                {
                    believed.insert(key, values[0].clone());
                }
            }
        }
    }
}

pub fn collect_logs<K: EngineKind>(c: &Cluster<K>) -> BTreeMap<u32, (u32, u64, u64, Vec<(u64, u64, u64)>)> {
    collect_logs_tail(c, u64::MAX)
}

pub fn collect_logs_tail<K: EngineKind>(c: &Cluster<K>, tail: u64) -> BTreeMap<u32, (u32, u64, u64, Vec<(u64, u64, u64)>)> {
    let mut m = BTreeMap::new();
    for id in c.live_ids() {
        if let Some((first, last, sigs)) = c.log_sigs_tail(id, tail) {
            let inc = c.slots.get(&id).map(|s| s.inc).unwrap_or(0);
            m.insert(id, (inc, first, last, sigs));
        }
    }
    m
}

/// Every 8th checkpoint compares the whole logs; the others only the last 160 entries of every
/// log (where appends, truncations and conflicts happen), which keeps a run's cost linear.
pub fn checkpoint<K: EngineKind>(c: &Cluster<K>) {
    let nth = {
        let mut on = c.rec.online();
        on.checkpoints += 1;
        on.checkpoints
    };
    let logs = if nth % 8 == 0 { collect_logs(c) } else { collect_logs_tail(c, 160) };
    let t = c.now();
    let mut on = c.rec.online();
    on.checkpoint(t, &logs);
    // C33: purge boundary vs commit and vs the snapshot the node holds
    for (id, (inc, first, _last, _)) in &logs {
        if *first > 1
            && let Some(n) = c.node(*id)
        {
            use d_engine_core::StateMachine;
            let snap = n.sm.snapshot_metadata().and_then(|m| m.last_included).map(|l| l.index);
            on.purge_check(t, *id, *inc, *first - 1, snap);
        }
    }
}

async fn sleep_with_checkpoints<K: EngineKind>(c: &mut Cluster<K>, ms: u64, hint: &Arc<AtomicU64>, cl: &ClientHandle) {
    let mut left = ms;
    while left > 0 {
        let step = left.min(40);
        c.sleep(step).await;
        left -= step;
        c.service_vote_crashes(cl).await;
        checkpoint(c);
        hint.store(c.leader().unwrap_or(0) as u64, Ordering::Relaxed);
    }
}

/// Register one watcher (exact key or '/'-terminated prefix) on a random live node through the
/// node's real `WatchRegistry` and start its consumer task (fast, slow or stalling reader; some
/// consumers drop their handle after a while, which unregisters the watcher).
fn spawn_watcher<K: EngineKind>(
    c: &Cluster<K>,
    plan: &Plan,
    r: &mut Rng,
    next_wid: &mut u64,
    stop: &Arc<AtomicBool>,
    tasks: &mut Vec<tokio::task::JoinHandle<()>>,
) {
    use d_engine_core::StateMachine;
    use d_engine_core::watch::WatchEventType;
    let live = c.live_ids();
    if live.is_empty() {
        return;
    }
    let node = *r.pick(&live);
    let Some(n) = c.node(node) else { return };
    let prefixes: [&[u8]; 5] = [b"/a/", b"/b/", b"/a/b/", b"/", b"/ab/"];
    let is_prefix = r.chance(1, 2);
    let key: Vec<u8> = if is_prefix { r.pick(&prefixes).to_vec() } else { plan_key(plan, r.below(plan.keys as u64) as u32) };
    let reg = if is_prefix {
        n.watch_registry.register_prefix(bytes::Bytes::from(key.clone()), r.chance(1, 3))
    } else {
        n.watch_registry.register(bytes::Bytes::from(key.clone()), r.chance(1, 3))
    };
    let Ok(mut handle) = reg else { return };
    let wid = *next_wid;
    *next_wid += 1;
    let applied = n.sm.last_applied().index;
    c.rec.push(c.now(), Ev::WatchRegister { wid, node, inc: n.inc, key, is_prefix, applied_at_registration: applied });
    let rec = c.rec.clone();
    let net = c.net.clone();
    let stop = stop.clone();
    let profile = r.below(4); // 0,1 fast; 2 slow; 3 stalls
    let drop_after = if r.chance(1, 4) { Some(r.range(200, 2500)) } else { None };
    let mut wr = Rng::new(r.next());
    tasks.push(tokio::spawn(async move {
        let started = net.now();
        loop {
            if stop.load(Ordering::Relaxed) {
                // drain what is buffered, then finish (the stream counts as read to the end)
                while let Ok(e) = handle.receiver_mut().try_recv() {
                    let kind = match e.event_type {
                        WatchEventType::Put => "put",
                        WatchEventType::Delete => "delete",
                        WatchEventType::Canceled => "canceled",
                        WatchEventType::Progress => "progress",
                    };
                    rec.push(net.now(), Ev::WatchRecv { wid, kind, key: e.key.to_vec(), value: e.value.to_vec(), revision: e.revision });
                }
                break;
            }
            if let Some(d) = drop_after
                && net.now() >= started + d
            {
                rec.push(net.now(), Ev::WatchEnd { wid, why: "dropped" });
                break; // dropping the handle unregisters the watcher
            }
            match tokio::time::timeout(Duration::from_millis(50), handle.receiver_mut().recv()).await {
                Err(_) => continue,
                Ok(None) => {
                    rec.push(net.now(), Ev::WatchEnd { wid, why: "closed" });
                    break;
                }
                Ok(Some(e)) => {
                    let kind = match e.event_type {
                        WatchEventType::Put => "put",
                        WatchEventType::Delete => "delete",
                        WatchEventType::Canceled => "canceled",
                        WatchEventType::Progress => "progress",
                    };
                    rec.push(net.now(), Ev::WatchRecv { wid, kind, key: e.key.to_vec(), value: e.value.to_vec(), revision: e.revision });
                    match profile {
                        2 => tokio::time::sleep(Duration::from_millis(wr.range(2, 40))).await,
                        3 if wr.chance(1, 10) => tokio::time::sleep(Duration::from_millis(wr.range(200, 900))).await,
                        _ => {}
                    }
                }
            }
        }
    }));
}

/// The generic chaos scenario.
pub async fn run_chaos<K: EngineKind>(plan: &Plan, scratch: &Path) -> RunOutcome {
    let mut out = RunOutcome::default();
    let mut c = Cluster::<K>::new(plan.params.clone(), plan.seed, scratch);
    let mut r = Rng::new(plan.seed ^ 0xC4A05);
    if let Err(e) = c.bootstrap().await {
        out.inconclusive = Some(format!("bootstrap failed: {e:?}"));
        return out;
    }
    {
        // C30 bound: worst-case vote round (the candidate's loop is blocked while it collects
        // votes) + the request deadline + two tick intervals, all from this run's configuration
        let vote_round = 4 * 100 + 20 + 40 + 80;
        let bound = vote_round + plan.params.general_timeout_ms + 2 * plan.params.heartbeat_ms + 100;
        if plan.client_timeout_ms >= bound {
            c.rec.online().reply_bound_ms = Some(bound);
        }
    }
    let hint = Arc::new(AtomicU64::new(0));
    c.net.inner.lock().unwrap().vote_crash_pct = plan.vote_crash_pct;
    if c.wait_leader(8000).await.is_none() {
        out.extra.insert("no_initial_leader".into(), json!(true));
    }
    hint.store(c.leader().unwrap_or(0) as u64, Ordering::Relaxed);
    let stop = Arc::new(AtomicBool::new(false));
    let seqs = Arc::new(AtomicU64::new(1));
    let cl = c.client();
    let mut client_tasks = Vec::new();
    for cid in 1..=plan.clients {
        client_tasks.push(tokio::spawn(client_loop(
            cl.clone(),
            cid,
            plan.clone(),
            stop.clone(),
            hint.clone(),
            seqs.clone(),
        )));
    }

    let all_ids: Vec<u32> = (1..=plan.params.voters).collect();
    let mut next_learner = plan.params.voters + 1;
    let mut learners_left = plan.add_learners;
    let end = c.now() + plan.duration_ms;
    let weights = [
        plan.w_isolate_leader,
        plan.w_partition_minority,
        plan.w_oneway,
        plan.w_heal,
        plan.w_crash,
        plan.w_restart,
        plan.w_stop_restart,
        plan.w_delay,
        plan.w_tier_n,
        plan.w_apply_lag,
        plan.w_none,
    ];
    let wsum: u64 = weights.iter().sum();
    // ---- directed scenario ----
    if !plan.script.is_empty() {
        let mut marks: [Option<u32>; 4] = [None; 4];
        for step in &plan.script {
            match step {
                Step::Sleep(ms) => sleep_with_checkpoints(&mut c, *ms, &hint, &cl).await,
                Step::MarkLeader(m) => {
                    marks[*m] = c.wait_leader(3000).await;
                }
                Step::WaitOtherLeader(not, m, max_ms) => {
                    let until = c.now() + *max_ms;
                    loop {
                        let l = c.leaders().into_iter().filter(|(i, _)| Some(*i) != marks[*not]).max_by_key(|(_, t)| *t).map(|(i, _)| i);
                        if l.is_some() || c.now() >= until {
                            marks[*m] = l;
                            break;
                        }
                        sleep_with_checkpoints(&mut c, 20, &hint, &cl).await;
                    }
                }
                Step::MarkThird(a, b, m) => {
                    marks[*m] = all_ids.iter().cloned().find(|i| Some(*i) != marks[*a] && Some(*i) != marks[*b]);
                }
                Step::Isolate(m) => {
                    if let Some(n) = marks[*m] {
                        let rest: Vec<u32> = all_ids.iter().cloned().filter(|i| *i != n).collect();
                        c.rec.push(c.now(), Ev::Fault { desc: format!("isolate {n}") });
                        partition(&c.net, &[vec![n], rest]);
                    }
                }
                Step::IsolateOutbound(m) => {
                    if let Some(n) = marks[*m] {
                        c.rec.push(c.now(), Ev::Fault { desc: format!("one-way isolation: nothing sent by {n} arrives") });
                        c.net.set_faults(|f| {
                            f.blocked.clear();
                            for o in &all_ids {
                                if *o != n {
                                    f.blocked.insert((n, *o));
                                }
                            }
                        });
                    }
                }
                Step::Partition(groups) => {
                    let mut gs: Vec<Vec<u32>> = groups.iter().map(|g| g.iter().filter_map(|m| marks[*m]).collect()).collect();
                    let placed: Vec<u32> = gs.iter().flatten().cloned().collect();
                    for i in &all_ids {
                        if !placed.contains(i) {
                            gs[0].push(*i);
                        }
                    }
                    c.rec.push(c.now(), Ev::Fault { desc: format!("partition {gs:?}") });
                    partition(&c.net, &gs);
                }
                Step::Heal => {
                    c.rec.push(c.now(), Ev::Fault { desc: "heal".into() });
                    heal(&c.net);
                }
                Step::Crash(m) => {
                    if let Some(n) = marks[*m] {
                        c.crash(n);
                        c.refresh(&cl);
                    }
                }
                Step::Restart(m) => {
                    if let Some(n) = marks[*m]
                        && c.node(n).is_none()
                    {
                        c.rec.push(c.now(), Ev::Fault { desc: format!("restart {n}") });
                        if let Err(e) = c.start(n).await {
                            out.extra.insert(format!("restart_{n}_error"), json!(format!("{e:?}")));
                        }
                        c.refresh(&cl);
                    }
                }
                Step::ApplyLag(m, ms) => {
                    if let Some(n) = marks[*m] {
                        c.rec.push(c.now(), Ev::Fault { desc: format!("apply lag node {n} = {ms}ms") });
                        c.set_apply_delay(n, *ms);
                    }
                }
            }
        }
    }
    let mut watch_tasks: Vec<tokio::task::JoinHandle<()>> = Vec::new();
    let watch_stop = Arc::new(AtomicBool::new(false));
    let mut next_wid: u64 = 1;
    while plan.script.is_empty() && c.now() < end {
        if plan.family == "watch" {
            for _ in 0..r.range(1, 3) {
                spawn_watcher(&c, plan, &mut r, &mut next_wid, &watch_stop, &mut watch_tasks);
            }
        }
        // membership growth early in the run
        if learners_left > 0 && r.chance(1, 3) && c.leader().is_some() {
            let id = next_learner;
            next_learner += 1;
            learners_left -= 1;
            c.rec.push(c.now(), Ev::Fault { desc: format!("add learner {id}") });
            if let Err(e) = c.add_learner(id).await {
                out.extra.insert(format!("add_learner_{id}_error"), json!(format!("{e:?}")));
            }
            c.refresh(&cl);
        }
        let mut x = r.below(wsum.max(1));
        let mut act = weights.len() - 1;
        for (i, w) in weights.iter().enumerate() {
            if x < *w {
                act = i;
                break;
            }
            x -= *w;
        }
        let ids: Vec<u32> = c.slots.keys().cloned().collect();
        let down: Vec<u32> = ids.iter().cloned().filter(|i| c.node(*i).is_none()).collect();
        let voters_down = down.iter().filter(|d| all_ids.contains(d)).count() as u32;
        match act {
            0 => {
                if let Some(l) = c.leader() {
                    let rest: Vec<u32> = ids.iter().cloned().filter(|i| *i != l).collect();
                    c.rec.push(c.now(), Ev::Fault { desc: format!("isolate leader {l}") });
                    partition(&c.net, &[vec![l], rest]);
                }
            }
            1 => {
                let mut sh = ids.clone();
                r.shuffle(&mut sh);
                let k = (ids.len() - 1) / 2;
                if k > 0 {
                    let k = r.range(1, k as u64) as usize;
                    let a: Vec<u32> = sh[..k].to_vec();
                    let b: Vec<u32> = sh[k..].to_vec();
                    c.rec.push(c.now(), Ev::Fault { desc: format!("partition {a:?} | {b:?}") });
                    partition(&c.net, &[a, b]);
                }
            }
            2 => {
                if ids.len() >= 2 {
                    let a = *r.pick(&ids);
                    let b = *r.pick(&ids);
                    if a != b {
                        c.rec.push(c.now(), Ev::Fault { desc: format!("one-way block {a}->{b}") });
                        c.net.set_faults(|f| {
                            f.blocked.insert((a, b));
                        });
                    }
                }
            }
            3 => {
                c.rec.push(c.now(), Ev::Fault { desc: "heal".into() });
                heal(&c.net);
                c.rec.online().tier_n_active = false;
            }
            4 => {
                if voters_down < plan.max_down {
                    let live = c.live_ids();
                    if !live.is_empty() {
                        // bias toward the leader half of the time
                        let v = if r.chance(1, 2) { c.leader().unwrap_or(*r.pick(&live)) } else { *r.pick(&live) };
                        c.crash(v);
                        c.refresh(&cl);
                    }
                }
            }
            5 => {
                if let Some(d) = down.first().cloned() {
                    c.rec.push(c.now(), Ev::Fault { desc: format!("restart {d}") });
                    if let Err(e) = c.start(d).await {
                        out.extra.insert(format!("restart_{d}_error"), json!(format!("{e:?}")));
                    }
                    c.refresh(&cl);
                }
            }
            6 => {
                if voters_down < plan.max_down {
                    let live = c.live_ids();
                    if !live.is_empty() {
                        let v = *r.pick(&live);
                        c.stop(v).await;
                        c.refresh(&cl);
                    }
                }
            }
            7 => {
                if ids.len() >= 2 {
                    let a = *r.pick(&ids);
                    let b = *r.pick(&ids);
                    let d = r.range(20, 400);
                    c.rec.push(c.now(), Ev::Fault { desc: format!("delay {a}->{b} +{d}ms") });
                    c.net.set_faults(|f| {
                        f.link_delay.insert((a, b), (d / 2, d));
                    });
                }
            }
            8 => {
                if plan.allow_tier_n {
                    let drop = r.range(0, 20);
                    let dup = r.range(0, 20);
                    c.rec.push(c.now(), Ev::Fault { desc: format!("tier-N chaos drop={drop}% dup={dup}% reorder") });
                    c.net.set_faults(|f| {
                        f.drop_pct = drop;
                        f.dup_pct = dup;
                        f.reorder = true;
                        f.delay_max = 30;
                    });
                    c.rec.online().tier_n_active = true;
                }
            }
            9 => {
                let live = c.live_ids();
                if !live.is_empty() {
                    let v = *r.pick(&live);
                    let d = *r.pick(&[0u64, 20, 100, 400]);
                    c.rec.push(c.now(), Ev::Fault { desc: format!("apply lag node {v} = {d}ms") });
                    c.set_apply_delay(v, d);
                }
            }
            _ => {}
        }
        let ph = r.range(plan.phase_ms.0, plan.phase_ms.1);
        sleep_with_checkpoints(&mut c, ph, &hint, &cl).await;
    }

    // ---- optional full graceful restart ----
    if plan.full_restart {
        c.rec.push(c.now(), Ev::Phase { name: "full graceful restart".into() });
        heal(&c.net);
        let down: Vec<u32> = c.slots.keys().cloned().filter(|i| c.node(*i).is_none()).collect();
        for d in down {
            let _ = c.start(d).await;
        }
        c.refresh(&cl);
        sleep_with_checkpoints(&mut c, 1500, &hint, &cl).await;
        let ids = c.live_ids();
        for id in &ids {
            c.stop(*id).await;
        }
        c.refresh(&cl);
        c.sleep(100).await;
        for id in &ids {
            if let Err(e) = c.start(*id).await {
                out.extra.insert(format!("restart_{id}_error"), json!(format!("{e:?}")));
            }
        }
        c.refresh(&cl);
    }

    // ---- heal + quiet period ----
    c.rec.push(c.now(), Ev::Phase { name: "heal+quiet".into() });
    c.net.inner.lock().unwrap().vote_crash_pct = 0;
    heal(&c.net);
    c.net.set_faults(|f| {
        f.delay_min = 1;
        f.delay_max = 3;
    });
    c.rec.online().tier_n_active = false;
    for id in c.live_ids() {
        c.set_apply_delay(id, 0);
    }
    let down: Vec<u32> = c.slots.keys().cloned().filter(|i| c.node(*i).is_none()).collect();
    for d in down {
        if let Err(e) = c.start(d).await {
            out.extra.insert(format!("restart_{d}_error"), json!(format!("{e:?}")));
        }
    }
    c.refresh(&cl);
    // let clients continue for a little while on the healed cluster, then stop them
    sleep_with_checkpoints(&mut c, plan.quiet_ms / 2, &hint, &cl).await;
    if plan.family == "watch" {
        // a few watchers on the healed cluster as well
        for _ in 0..3 {
            spawn_watcher(&c, plan, &mut r, &mut next_wid, &watch_stop, &mut watch_tasks);
        }
        sleep_with_checkpoints(&mut c, 300, &hint, &cl).await;
    }
    stop.store(true, Ordering::Relaxed);
    for t in client_tasks {
        let _ = tokio::time::timeout(Duration::from_millis(plan.client_timeout_ms + 500), t).await;
    }
    sleep_with_checkpoints(&mut c, plan.quiet_ms / 2, &hint, &cl).await;

    // ---- final probes ----
    let leader = c.wait_leader(2000).await;
    out.extra.insert("final_leader".into(), json!(leader));
    let mut final_values: BTreeMap<String, Value> = BTreeMap::new();
    if let Some(l) = leader {
        for k in 0..plan.keys {
            let (_, res) = cl.read(999, l, vec![plan_key(plan, k)], Some("linearizable"), "cmd", 3000).await;
            final_values.insert(format!("k{k}"), super::record::result_json(&res));
        }
    }
    out.extra.insert("final_reads".into(), json!(final_values));
    // ---- bounded progress after heal (C32; C33's "replication keeps working across the purge
    // boundary") ----
    if plan.family == "liveness" || plan.family == "compaction" {
        use d_engine_core::StateMachine;
        let prop: &'static str = if plan.family == "liveness" { "C32" } else { "C33" };
        let restart_failed = out.extra.keys().any(|k| k.starts_with("restart_"));
        let voters: Vec<u32> = (1..=plan.params.voters).collect();
        let up = voters.iter().filter(|v| c.node(**v).is_some()).count();
        if up >= voters.len() / 2 + 1 {
            match leader {
                None => {
                    let roles: Vec<_> = c.live_ids().iter().map(|i| json!([i, c.role_of(*i).map(|r| (r.role, r.term))])).collect();
                    // mechanism, from the vote traffic of the last 5 virtual seconds: vote rounds
                    // that follow each other without a gap (a lost round does not re-arm the
                    // election timer) keep every voter inside `broadcast_vote_requests`, where it
                    // does not answer the other candidates: most requests time out unanswered
                    let (reqs, answered, granted, rounds) = c.rec.online().vote_activity_since(c.now().saturating_sub(5000));
                    // second mechanism: candidates that held a majority of the votes and still did
                    // not become leader (a candidate abandons its round when a *refusing* voter
                    // reports a more recent log, whatever the count says)
                    let won = c.rec.online().won_rounds_without_leader_since(c.now().saturating_sub(5000), c.now());
                    let sig = if rounds >= 4 && reqs >= 8 && answered * 2 < reqs {
                        "no-leader-after-heal-and-quiet-period:vote-requests-unanswered-by-voters-busy-in-their-own-vote-rounds"
                    } else if !won.is_empty() {
                        "no-leader-after-heal-and-quiet-period:candidates-holding-a-vote-majority-did-not-become-leader"
                    } else {
                        "no-leader-after-heal-and-quiet-period"
                    };
                    let roles = json!({"roles": roles, "last_5s": {"vote_requests": reqs, "answered": answered, "granted": granted, "rounds_ended": rounds, "rounds_with_a_vote_majority_but_no_leader": won.iter().map(|(c, t, v, n)| json!({"candidate": c, "term": t, "votes": v, "voters": n})).collect::<Vec<_>>()}});
                    c.rec.online().report(c.now(), prop, sig, json!({"quiet_ms": plan.quiet_ms, "live": c.live_ids(), "roles": roles, "restart_failed": restart_failed}));
                }
                Some(l) => {
                    let (_, res) = cl
                        .write(998, l, ClientOp::Put { key: b"probe".to_vec(), value: format!("probe-{}", plan.seed).into_bytes(), ttl: None }, 3000)
                        .await;
                    out.counters.insert("probe_writes".into(), 1);
                    if !matches!(res, ClientResult::WriteOk { .. }) {
                        c.rec.online().report(c.now(), prop, "probe-write-not-accepted-after-heal-and-quiet-period", json!({"leader": l, "result": super::record::result_json(&res), "quiet_ms": plan.quiet_ms}));
                    }
                    let commit = c.rec.online().commit_index.get(&l).cloned().unwrap_or(0);
                    c.sleep(1000).await;
                    let mut behind = Vec::new();
                    for v in c.live_ids() {
                        let is_voter = c.rec.online().view.get(&l).is_some_and(|(vs, _)| vs.contains(&v));
                        if !is_voter {
                            continue;
                        }
                        if let Some(n) = c.node(v) {
                            let la = n.sm.last_applied().index;
                            if la < commit {
                                behind.push(json!({"node": v, "last_applied": la, "log": [n.raft_log.first_entry_id(), n.raft_log.last_entry_id()]}));
                            }
                        }
                    }
                    out.counters.insert("progress_checks".into(), 1);
                    if !behind.is_empty() {
                        let sig = if prop == "C32" { "live-voter-behind-commit-index-after-heal-and-quiet-period" } else { "lagging-peer-not-caught-up-across-purge-boundary" };
                        let lf = c.node(l).map(|n| n.raft_log.first_entry_id());
                        c.rec.online().report(c.now(), prop, sig, json!({"leader": l, "leader_commit": commit, "leader_log_first": lf, "behind": behind, "quiet_ms": plan.quiet_ms}));
                    }
                }
            }
        }
    }
    // ---- watch streams: let consumers drain, then judge every stream (C24) ----
    if plan.family == "watch" {
        use d_engine_core::StateMachine;
        // quiescence: every live state machine has stopped advancing (a node that lagged may
        // still be catching up); what a stream owes is judged against the applied index seen
        // *before* the consumers are told to drain
        let snapshot_applied = |c: &Cluster<K>| -> std::collections::HashMap<(u32, u32), u64> {
            let mut m = std::collections::HashMap::new();
            for id in c.live_ids() {
                if let Some(n) = c.node(id) {
                    m.insert((id, n.inc), n.sm.last_applied().index);
                }
            }
            m
        };
        let mut fa = snapshot_applied(&c);
        for _ in 0..40 {
            c.sleep(300).await;
            let now = snapshot_applied(&c);
            if now == fa {
                break;
            }
            fa = now;
        }
        watch_stop.store(true, Ordering::Relaxed);
        for t in watch_tasks.drain(..) {
            let _ = tokio::time::timeout(Duration::from_millis(3000), t).await;
        }
        let t = c.now();
        let mut on = c.rec.online();
        on.watch.finish(t, &fa);
        let wf = std::mem::take(&mut on.watch.findings);
        on.findings.extend(wf);
        out.counters.insert("watchers_checked".into(), on.watch.watchers_checked);
        out.counters.insert("watch_events_checked".into(), on.watch.events_checked);
        out.counters.insert("watch_cancels_seen".into(), on.watch.cancels_seen);
        out.counters.insert("watch_gaps_announced_by_cancel".into(), on.watch.gaps_tolerated_by_cancel);
    }
    // ---- quiescent state oracle (C06 / C15 / C16) ----
    {
        use d_engine_core::StateMachine;
        let mut keys: Vec<Vec<u8>> = (0..plan.keys).map(|i| plan_key(plan, i)).collect();
        keys.push(b"probe".to_vec());
        for id in c.live_ids() {
            if let Some(n) = c.node(id) {
                // content and applied index must belong together: the state machine may still be
                // applying on another thread, so read the index on both sides of the content and
                // retry until it did not move (a node that never holds still is not judged)
                let mut stable: Option<(u64, Vec<(Vec<u8>, Option<Vec<u8>>)>)> = None;
                for _ in 0..8 {
                    let la = n.sm.last_applied().index;
                    let content: Vec<(Vec<u8>, Option<Vec<u8>>)> =
                        keys.iter().map(|k| (k.clone(), n.sm.get(k).ok().flatten().map(|b| b.to_vec()))).collect();
                    if n.sm.last_applied().index == la {
                        stable = Some((la, content));
                        break;
                    }
                    std::thread::sleep(std::time::Duration::from_millis(5));
                }
                let Some((la, content)) = stable else { continue };
                let t = c.now();
                c.rec.online().final_state_check(t, id, n.inc, la, &content);
            }
        }
        let n = c.rec.online().final_state_checks;
        out.counters.insert("final_state_checks".into(), n);
    }
    {
        let iv: std::collections::BTreeSet<u32> = (1..=plan.params.voters).collect();
        let t = c.now();
        c.rec.online().finish_membership(t, leader, &iv);
    }
    c.sleep(200).await;
    checkpoint(&c);
    let t = c.now();
    {
        let mut on = c.rec.online();
        on.finish(t);
        let (mut hf, hs) = super::history::analyze(&on, 400_000);
        // classify linearizability findings: was the offending read served by a leader that had
        // no fresh quorum (the C12 condition) at that moment?
        for f in hf.iter_mut() {
            if f.property == "C11" || f.property == "C10" {
                let ids: Vec<u64> = f.detail["frontier_ops_that_cannot_be_ordered"]
                    .as_array()
                    .map(|a| a.iter().filter_map(|x| x["op"].as_u64()).collect())
                    .unwrap_or_else(|| f.detail["read_op"].as_u64().into_iter().collect());
                let unbacked = ids.iter().any(|id| {
                    let (Some((_, node, _, t0)), Some((_, t1))) = (on.ops.get(id), on.results.get(id)) else { return false };
                    on.lease.unbacked_serves.iter().any(|(n, t, _)| n == node && *t >= *t0 && *t <= *t1)
                });
                if unbacked {
                    f.signature = format!("{}:read-served-by-leader-without-fresh-quorum", f.signature);
                }
            }
        }
        on.findings.extend(hf);
        let lf = std::mem::take(&mut on.lease.findings);
        on.findings.extend(lf);
        out.counters.insert("lease_serves".into(), on.lease.lease_serves);
        out.counters.insert("lease_serves_checked".into(), on.lease.lease_serves_checked);
        out.counters.insert("lin_serves".into(), on.lease.lin_serves);
        out.counters.insert("unbacked_leader_reads".into(), on.lease.unbacked_serves.len() as u64);
        out.counters.insert("lin_keys_checked".into(), hs.keys_checked);
        out.counters.insert("lin_ops_checked".into(), hs.ops_checked);
        out.counters.insert("lin_inconclusive".into(), hs.lin_inconclusive);
        out.counters.insert("final_reads".into(), hs.final_reads);
    }

    // ---- collect ----
    out.virtual_ms = c.now();
    out.events = c.rec.len();
    {
        let on = c.rec.online();
        out.findings = on.findings.clone();
        out.signature = on.signature();
        let k = &on.counters;
        for (n, v) in [
            ("elections_won", k.elections_won),
            ("commits", k.commits),
            ("follower_commits", k.follower_commits),
            ("applies", k.applies),
            ("crashes", k.crashes),
            ("restarts", k.restarts),
            ("vote_grants", k.vote_grants),
            ("ae_sent", k.ae_sent),
            ("ae_acks", k.ae_acks),
            ("conflicts", k.conflicts),
            ("snapshots", k.snapshots),
            ("installs", k.installs),
            ("reads_served", k.reads_served),
            ("lease_reads_served", k.lease_reads_served),
            ("membership_changes", k.membership_changes),
            ("writes_ok", k.writes_ok),
            ("rejected", k.rejected),
            ("indeterminate", k.indeterminate),
            ("notifications", k.notifications),
            ("step_downs", k.step_downs),
            ("joins_ok", k.joins_ok),
            ("joins_rejected", k.joins_rejected),
            ("promotions", k.promotions),
            ("view_pairs_checked", k.view_pairs_checked),
            ("purge_checks", k.purge_checks),
            ("client_timeouts", k.client_timeouts),
        ] {
            out.counters.insert(n.to_string(), v);
        }
    }
    if !out.findings.is_empty() || std::env::var("DVERIF_KEEP_EVENTS").is_ok() {
        out.all_events = c.rec.snapshot();
    }
    c.shutdown_all().await;
    out
}

/// Run one plan on a fresh paused runtime. Everything a run creates lives under `scratch`.
pub fn run_plan(plan: &Plan, scratch_root: &Path) -> RunOutcome {
    let scratch = scratch_root.join(format!("run-{}-{}", plan.family, plan.seed));
    let _ = std::fs::remove_dir_all(&scratch);
    let _ = std::fs::create_dir_all(&scratch);
    let rt = tokio::runtime::Builder::new_current_thread()
        .enable_all()
        .start_paused(true)
        .build()
        .expect("runtime");
    let out = rt.block_on(async {
        if plan.rocks {
            run_chaos::<RocksKind>(plan, &scratch).await
        } else {
            run_chaos::<FileKind>(plan, &scratch).await
        }
    });
    Cluster::<FileKind>::uninstall_hooks();
    drop(rt);
    let _ = std::fs::remove_dir_all(&scratch);
    out
}

impl RunOutcome {
    /// events in the window leading to time `t` (at most `max` of them, heartbeats thinned)
    pub fn trace_around(&self, t: u64, before_ms: u64, max: usize) -> Vec<Value> {
        let lo = t.saturating_sub(before_ms);
        let sel: Vec<&super::record::Rec> =
            self.all_events.iter().filter(|e| e.t >= lo && e.t <= t + 20).collect();
        let skip = sel.len().saturating_sub(max);
        sel.into_iter().skip(skip).map(ev_json).collect()
    }
}
