//! Deterministic reference models used as oracles.

use std::collections::BTreeMap;

use bytes::Bytes;
use d_engine_core::ApplyEntry;
use d_engine_core::Command;
use serde_json::Value;
use serde_json::json;

use crate::util::show_bytes;

/// Reference key-value semantics (the documented ones): put/delete always succeed, CAS succeeds
/// iff the current value equals the expected one, with `None` matching "absent".
#[derive(Clone, Debug, Default, PartialEq)]
pub struct KvRef {
    pub map: BTreeMap<Vec<u8>, Vec<u8>>,
}

impl KvRef {
    pub fn apply(&mut self, c: &Command) -> bool {
        match c {
            Command::Noop => true,
            Command::Insert { key, value, .. } => {
                self.map.insert(key.to_vec(), value.to_vec());
                true
            }
            Command::Delete { key } => {
                self.map.remove(key.as_ref());
                true
            }
            Command::CompareAndSwap {
                key,
                expected,
                value,
            } => {
                let cur = self.map.get(key.as_ref());
                let ok = match (cur, expected) {
                    (Some(c), Some(e)) => c.as_slice() == e.as_ref(),
                    (None, None) => true,
                    _ => false,
                };
                if ok {
                    self.map.insert(key.to_vec(), value.to_vec());
                }
                ok
            }
        }
    }

    pub fn apply_all<'a>(&mut self, cmds: impl IntoIterator<Item = &'a ApplyEntry>) -> Vec<bool> {
        cmds.into_iter().map(|e| self.apply(&e.command)).collect()
    }

    pub fn get(&self, k: &[u8]) -> Option<&Vec<u8>> {
        self.map.get(k)
    }

    pub fn scan_prefix(&self, p: &[u8]) -> Vec<(Vec<u8>, Vec<u8>)> {
        self.map
            .iter()
            .filter(|(k, _)| k.starts_with(p))
            .map(|(k, v)| (k.clone(), v.clone()))
            .collect()
    }

    pub fn show(&self) -> Value {
        Value::Object(
            self.map
                .iter()
                .map(|(k, v)| (show_bytes(k), Value::String(show_bytes(v))))
                .collect(),
        )
    }
}

pub fn show_cmd(c: &Command) -> Value {
    match c {
        Command::Noop => json!("noop"),
        Command::Insert {
            key,
            value,
            ttl_secs,
        } => json!({"put": show_bytes(key), "v": show_bytes(value), "ttl": ttl_secs}),
        Command::Delete { key } => json!({"del": show_bytes(key)}),
        Command::CompareAndSwap {
            key,
            expected,
            value,
        } => json!({"cas": show_bytes(key), "exp": expected.as_ref().map(|e| show_bytes(e)), "new": show_bytes(value)}),
    }
}

pub fn b(s: &[u8]) -> Bytes {
    Bytes::copy_from_slice(s)
}
