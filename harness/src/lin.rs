//! Linearizability checker (Wing-Gong / Lowe style search with memoisation) for a single
//! register with put / delete / CAS / read. Histories are checked per key (P-compositionality).
//! Operations whose outcome is unknown (timeout, indeterminate error, crashed client) stay
//! open: they may take effect at any point after their invocation, or never.

use std::collections::HashMap;
use std::collections::HashSet;

#[derive(Clone, Debug, PartialEq)]
pub enum LOp {
    Put(Vec<u8>),
    Del,
    Cas { exp: Option<Vec<u8>>, new: Vec<u8> },
    Read,
}

#[derive(Clone, Debug, PartialEq)]
pub enum LRes {
    /// put / delete acknowledged
    Ok,
    Cas(bool),
    Read(Option<Vec<u8>>),
    /// outcome unknown
    Unknown,
}

#[derive(Clone, Debug)]
pub struct LEntry {
    pub id: u64,
    pub op: LOp,
    pub call: u64,
    /// None = never returned (open until the end of the history)
    pub ret: Option<u64>,
    pub res: LRes,
}

#[derive(Debug, PartialEq)]
pub enum Verdict {
    Linearizable,
    NotLinearizable,
    /// step budget exhausted
    Inconclusive,
}

struct Ctx<'a> {
    ops: &'a [LEntry],
    // interned values: 0 = absent
    op_new: Vec<u32>,
    op_exp: Vec<u32>,
    op_read: Vec<u32>,
    memo: HashSet<(Vec<u64>, u32)>,
    steps: u64,
    budget: u64,
    best: usize,
    best_lin: Vec<u64>,
}

fn bit(set: &[u64], i: usize) -> bool {
    (set[i / 64] >> (i % 64)) & 1 == 1
}
fn set_bit(set: &mut [u64], i: usize) {
    set[i / 64] |= 1 << (i % 64);
}
fn clear_bit(set: &mut [u64], i: usize) {
    set[i / 64] &= !(1 << (i % 64));
}

impl<'a> Ctx<'a> {
    /// new state if `op` can take effect in `state` consistently with its recorded result
    fn apply(&self, i: usize, state: u32) -> Option<u32> {
        let e = &self.ops[i];
        match (&e.op, &e.res) {
            (LOp::Put(_), LRes::Ok | LRes::Unknown | LRes::Cas(_)) => Some(self.op_new[i]),
            (LOp::Del, LRes::Ok | LRes::Unknown | LRes::Cas(_)) => Some(0),
            (LOp::Cas { .. }, LRes::Cas(ok)) => {
                let matches = state == self.op_exp[i];
                if matches != *ok {
                    None
                } else if matches {
                    Some(self.op_new[i])
                } else {
                    Some(state)
                }
            }
            (LOp::Cas { .. }, LRes::Unknown | LRes::Ok) => {
                if state == self.op_exp[i] { Some(self.op_new[i]) } else { Some(state) }
            }
            (LOp::Read, LRes::Read(_)) => {
                if state == self.op_read[i] { Some(state) } else { None }
            }
            (LOp::Read, _) => Some(state),
            _ => None,
        }
    }

    /// `lo`: every op before index `lo` is already linearized (ops are sorted by call time, and a
    /// linearization mostly proceeds in that order, so the scans below touch only the window of
    /// operations concurrent with the oldest unlinearized one).
    fn go(&mut self, lin: &mut Vec<u64>, state: u32, done: usize, lo: usize) -> Option<bool> {
        self.steps += 1;
        if self.steps > self.budget {
            return None;
        }
        let n = self.ops.len();
        let mut lo = lo;
        while lo < n && bit(lin, lo) {
            lo += 1;
        }
        // minimal return time among unlinearized completed ops; an op invoked after it cannot
        // be linearized next. Scanning stops at the first op invoked after the current minimum
        // (its return, and that of every later op, is later still).
        let mut min_ret = u64::MAX;
        let mut hi = lo;
        while hi < n {
            let e = &self.ops[hi];
            if e.call > min_ret {
                break;
            }
            if !bit(lin, hi)
                && let Some(r) = e.ret
                && r < min_ret
            {
                min_ret = r;
            }
            hi += 1;
        }
        if min_ret == u64::MAX {
            // finished: every completed op is linearized
            return Some(true);
        }
        if done > self.best {
            self.best = done;
            self.best_lin = lin.clone();
        }
        let key = (lin.clone(), state);
        if self.memo.contains(&key) {
            return Some(false);
        }
        for i in lo..hi {
            if bit(lin, i) {
                continue;
            }
            if self.ops[i].call > min_ret {
                break;
            }
            if let Some(ns) = self.apply(i, state) {
                set_bit(lin, i);
                let r = self.go(lin, ns, done + 1, lo);
                clear_bit(lin, i);
                match r {
                    None => return None,
                    Some(true) => return Some(true),
                    Some(false) => {}
                }
            }
        }
        self.memo.insert(key);
        Some(false)
    }
}

/// Check one key's history. `initial` = value before the first op (None = absent).
/// Returns the verdict and, when not linearizable, the ids of the ops that could not be placed
/// after the longest linearizable prefix found (a compact witness).
pub fn check_key(ops: &[LEntry], initial: Option<Vec<u8>>, budget: u64) -> (Verdict, Vec<u64>) {
    let mut ops: Vec<LEntry> = ops
        .iter()
        .filter(|e| !(matches!(e.op, LOp::Read) && !matches!(e.res, LRes::Read(_))))
        .cloned()
        .collect();
    ops.sort_by_key(|e| (e.call, e.id));
    if ops.is_empty() {
        return (Verdict::Linearizable, vec![]);
    }
    let mut intern: HashMap<Vec<u8>, u32> = HashMap::new();
    let mut id_of = |v: &Option<Vec<u8>>, intern: &mut HashMap<Vec<u8>, u32>| -> u32 {
        match v {
            None => 0,
            Some(b) => {
                let n = intern.len() as u32 + 1;
                *intern.entry(b.clone()).or_insert(n)
            }
        }
    };
    let init = id_of(&initial, &mut intern);
    let mut op_new = Vec::new();
    let mut op_exp = Vec::new();
    let mut op_read = Vec::new();
    for e in &ops {
        let (n, x) = match &e.op {
            LOp::Put(v) => (id_of(&Some(v.clone()), &mut intern), 0),
            LOp::Del => (0, 0),
            LOp::Cas { exp, new } => (id_of(&Some(new.clone()), &mut intern), id_of(exp, &mut intern)),
            LOp::Read => (0, 0),
        };
        op_new.push(n);
        op_exp.push(x);
        op_read.push(match &e.res {
            LRes::Read(v) => id_of(v, &mut intern),
            _ => 0,
        });
    }
    let words = ops.len().div_ceil(64);
    let mut ctx = Ctx {
        ops: &ops,
        op_new,
        op_exp,
        op_read,
        memo: HashSet::new(),
        steps: 0,
        budget,
        best: 0,
        best_lin: vec![0; words],
    };
    let mut lin = vec![0u64; words];
    match ctx.go(&mut lin, init, 0, 0) {
        None => (Verdict::Inconclusive, vec![]),
        Some(true) => (Verdict::Linearizable, vec![]),
        Some(false) => {
            // witness: the completed ops around the frontier of the best partial linearization
            let mut stuck: Vec<u64> = Vec::new();
            let mut min_ret = u64::MAX;
            for (i, e) in ops.iter().enumerate() {
                if !bit(&ctx.best_lin, i)
                    && let Some(r) = e.ret
                {
                    min_ret = min_ret.min(r);
                }
            }
            for (i, e) in ops.iter().enumerate() {
                if !bit(&ctx.best_lin, i) && e.call <= min_ret {
                    stuck.push(e.id);
                }
            }
            (Verdict::NotLinearizable, stuck)
        }
    }
}

#[cfg(test)]
mod tests {
    use super::*;
    fn e(id: u64, op: LOp, call: u64, ret: Option<u64>, res: LRes) -> LEntry {
        LEntry { id, op, call, ret, res }
    }
    #[test]
    fn basic() {
        let h = vec![
            e(1, LOp::Put(b"a".to_vec()), 1, Some(2), LRes::Ok),
            e(2, LOp::Read, 3, Some(4), LRes::Read(Some(b"a".to_vec()))),
        ];
        assert_eq!(check_key(&h, None, 10000).0, Verdict::Linearizable);
        let h = vec![
            e(1, LOp::Put(b"a".to_vec()), 1, Some(2), LRes::Ok),
            e(2, LOp::Read, 3, Some(4), LRes::Read(None)),
        ];
        assert_eq!(check_key(&h, None, 10000).0, Verdict::NotLinearizable);
        // open write may take effect late
        let h = vec![
            e(1, LOp::Put(b"a".to_vec()), 1, None, LRes::Unknown),
            e(2, LOp::Read, 3, Some(4), LRes::Read(None)),
            e(3, LOp::Read, 5, Some(6), LRes::Read(Some(b"a".to_vec()))),
        ];
        assert_eq!(check_key(&h, None, 10000).0, Verdict::Linearizable);
        // stale read after newer acked write
        let h = vec![
            e(1, LOp::Put(b"a".to_vec()), 1, Some(2), LRes::Ok),
            e(2, LOp::Put(b"b".to_vec()), 3, Some(4), LRes::Ok),
            e(3, LOp::Read, 5, Some(6), LRes::Read(Some(b"a".to_vec()))),
        ];
        assert_eq!(check_key(&h, None, 10000).0, Verdict::NotLinearizable);
    }
}
