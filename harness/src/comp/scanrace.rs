//! C25: a prefix scan returns exactly the keys with that prefix and the values of the state after
//! applying all entries up to the revision it reports.
//!
//! Part 1 (inputs): random key sets over an alphabet that includes the boundary bytes 0x00 and
//! 0xFF, prefixes ending in 0xFF / all-0xFF / one byte / longer than any key, on both engines,
//! compared with the reference map.
//! Part 2 (schedules): an apply thread feeds chunks to the real state machine while scan threads
//! call `scan_prefix` in a tight loop; every (entries, revision) pair is compared with the
//! reference state at exactly that revision (the script makes every revision's state distinct).
//! The apply thread sometimes yields / sleeps a few microseconds between chunks so that scans
//! land in different places relative to an apply.

use std::collections::BTreeMap;
use std::path::Path;
use std::sync::Arc;
use std::sync::atomic::AtomicBool;
use std::sync::atomic::Ordering;

use bytes::Bytes;
use d_engine_core::ApplyEntry;
use d_engine_core::Command;
use d_engine_core::StateMachine;
use serde_json::Value;
use serde_json::json;

use super::try_open_sm;
use crate::util::Args;
use crate::util::Rng;
use crate::util::ShardReport;
use crate::util::fnv64;
use crate::util::show_bytes;

fn show(v: &[(Vec<u8>, Vec<u8>)]) -> Value {
    json!(v.iter().take(12).map(|(k, v)| json!([show_bytes(k), show_bytes(v)])).collect::<Vec<_>>())
}

fn scan_model(m: &BTreeMap<Vec<u8>, Vec<u8>>, p: &[u8]) -> Vec<(Vec<u8>, Vec<u8>)> {
    m.iter().filter(|(k, _)| k.starts_with(p)).map(|(k, v)| (k.clone(), v.clone())).collect()
}

fn sorted(sr: &d_engine_core::ScanResult) -> Vec<(Vec<u8>, Vec<u8>)> {
    let mut v: Vec<(Vec<u8>, Vec<u8>)> = sr.entries.iter().map(|(k, v)| (k.to_vec(), v.to_vec())).collect();
    v.sort();
    v
}

async fn part1(engine: &str, dir: &Path, r: &mut Rng, rep: &mut ShardReport, seed: u64) {
    let sm = match try_open_sm(engine, dir).await {
        Ok(s) => s,
        Err(e) => {
            rep.inconclusive.push(format!("open {engine}: {e}"));
            return;
        }
    };
    let alphabet: [u8; 5] = [0x00, 0x61, 0x62, 0xFE, 0xFF];
    let mut model: BTreeMap<Vec<u8>, Vec<u8>> = BTreeMap::new();
    let mut entries = Vec::new();
    let n = r.range(10, 60);
    for i in 0..n {
        let len = r.range(1, 4) as usize;
        let key: Vec<u8> = (0..len).map(|_| *r.pick(&alphabet)).collect();
        if r.chance(1, 6) {
            model.remove(&key);
            entries.push(ApplyEntry { index: i + 1, term: 1, command: Command::Delete { key: Bytes::from(key) } });
        } else {
            let val = format!("v{i}").into_bytes();
            model.insert(key.clone(), val.clone());
            entries.push(ApplyEntry { index: i + 1, term: 1, command: Command::Insert { key: Bytes::from(key), value: Bytes::from(val), ttl_secs: None } });
        }
    }
    if sm.apply_chunk(&entries).await.is_err() {
        rep.inconclusive.push("apply failed".into());
        return;
    }
    let mut prefixes: Vec<Vec<u8>> = vec![vec![0xFF], vec![0xFF, 0xFF], vec![0xFF, 0xFF, 0xFF, 0xFF], vec![0x61, 0xFF], vec![0xFE], vec![0x00], vec![0x61], vec![0x61, 0x62, 0x61, 0x62, 0x61]];
    for _ in 0..6 {
        let len = r.range(1, 3) as usize;
        prefixes.push((0..len).map(|_| *r.pick(&alphabet)).collect());
    }
    for p in prefixes {
        rep.count("prefix_scans", 1);
        match sm.scan_prefix(&p) {
            Ok(sr) => {
                let got = sorted(&sr);
                let exp = scan_model(&model, &p);
                if got != exp {
                    rep.violation(
                        "C25",
                        &format!("scan-returns-wrong-key-set[{engine}]"),
                        json!({"detail": {"prefix": show_bytes(&p), "got": show(&got), "expected": show(&exp), "got_n": got.len(), "expected_n": exp.len()}}),
                        json!({"seed": seed, "part": "prefix-boundaries", "engine": engine}),
                    );
                }
                if sr.revision != n {
                    rep.violation(
                        "C25",
                        &format!("scan-revision-differs-from-applied-index-at-rest[{engine}]"),
                        json!({"detail": {"revision": sr.revision, "applied": n}}),
                        json!({"seed": seed, "part": "prefix-boundaries", "engine": engine}),
                    );
                }
            }
            Err(e) => rep.inconclusive.push(format!("scan error {e:?}")),
        }
    }
    let _ = sm.stop();
    sm.close_storage();
}

/// state at every revision: key j holds the value of the latest entry i <= rev with i % K == j
fn part2(engine: &'static str, dir: &Path, r: &mut Rng, rep: &mut ShardReport, seed: u64) {
    let rt = tokio::runtime::Builder::new_current_thread().enable_all().build().expect("rt");
    let sm: Arc<dyn StateMachine> = match rt.block_on(try_open_sm(engine, dir)) {
        Ok(s) => s,
        Err(e) => {
            rep.inconclusive.push(format!("open {engine}: {e}"));
            return;
        }
    };
    let k = r.range(3, 8);
    let total = r.range(600, 1500);
    let mut entries = Vec::new();
    for i in 1..=total {
        let key = format!("p/k{}", i % k).into_bytes();
        entries.push(ApplyEntry { index: i, term: 1, command: Command::Insert { key: Bytes::from(key), value: Bytes::from(format!("{i}").into_bytes()), ttl_secs: None } });
    }
    // chunk plan
    let mut cuts = Vec::new();
    let mut at = 0u64;
    while at < total {
        at = (at + r.range(1, 4)).min(total);
        cuts.push(at);
    }
    let stop = Arc::new(AtomicBool::new(false));
    let mut scanners = Vec::new();
    for _ in 0..3 {
        let sm = sm.clone();
        let stop = stop.clone();
        scanners.push(std::thread::spawn(move || {
            // (revision, sorted entries)
            let mut seen: Vec<(u64, Vec<(Vec<u8>, Vec<u8>)>)> = Vec::new();
            while !stop.load(Ordering::Relaxed) {
                if let Ok(sr) = sm.scan_prefix(b"p/") {
                    let e = sorted(&sr);
                    if seen.last().map(|l| l.0 != sr.revision || l.1 != e).unwrap_or(true) {
                        seen.push((sr.revision, e));
                    }
                }
            }
            seen
        }));
    }
    let pause_seed = r.next();
    {
        let sm = sm.clone();
        let mut pr = Rng::new(pause_seed);
        rt.block_on(async {
            let mut start = 0usize;
            for end in &cuts {
                let chunk = &entries[start..*end as usize];
                let _ = sm.apply_chunk(chunk).await;
                start = *end as usize;
                match pr.below(4) {
                    0 => std::thread::yield_now(),
                    1 => std::thread::sleep(std::time::Duration::from_micros(pr.range(1, 60))),
                    _ => {}
                }
            }
        });
    }
    std::thread::sleep(std::time::Duration::from_millis(2));
    stop.store(true, Ordering::Relaxed);
    let mut observed = 0u64;
    let mut distinct_revs = std::collections::BTreeSet::new();
    let mut older = None;
    let mut newer = None;
    let mut other = None;
    // reference state after every revision
    let mut states: Vec<Vec<(Vec<u8>, Vec<u8>)>> = Vec::with_capacity(total as usize + 1);
    {
        let mut m: BTreeMap<Vec<u8>, Vec<u8>> = BTreeMap::new();
        states.push(vec![]);
        for i in 1..=total {
            m.insert(format!("p/k{}", i % k).into_bytes(), format!("{i}").into_bytes());
            states.push(m.iter().map(|(a, b)| (a.clone(), b.clone())).collect());
        }
    }
    let state_at = |rev: u64| -> Vec<(Vec<u8>, Vec<u8>)> { states.get(rev as usize).cloned().unwrap_or_default() };
    for s in scanners {
        for (rev, ents) in s.join().unwrap_or_default() {
            observed += 1;
            distinct_revs.insert(rev);
            let exp = state_at(rev);
            if ents != exp {
                // which revision does the content correspond to?
                let maxv = ents.iter().filter_map(|(_, v)| String::from_utf8_lossy(v).parse::<u64>().ok()).max().unwrap_or(0);
                let d = json!({"reported_revision": rev, "content_is_state_at_revision": maxv, "entries": show(&ents), "expected_at_reported_revision": show(&exp)});
                if state_at(maxv) == ents && maxv < rev {
                    older.get_or_insert(d);
                } else if state_at(maxv) == ents && maxv > rev {
                    newer.get_or_insert(d);
                } else {
                    other.get_or_insert(d);
                }
            }
        }
    }
    rep.count("concurrent_scans_observed", observed);
    rep.count("distinct_revisions_observed", distinct_revs.len() as u64);
    let sc = json!({"seed": seed, "part": "scan-vs-apply", "engine": engine, "entries": total, "keys": k, "chunks": cuts.len()});
    if let Some(d) = older {
        rep.violation("C25", &format!("scan-state-older-than-reported-revision[{engine}]"), json!({"detail": d}), sc.clone());
    }
    if let Some(d) = newer {
        rep.violation("C25", &format!("scan-state-newer-than-reported-revision[{engine}]"), json!({"detail": d}), sc.clone());
    }
    if let Some(d) = other {
        rep.violation("C25", &format!("scan-state-matches-no-revision[{engine}]"), json!({"detail": d}), sc.clone());
    }
    rep.eval(distinct_revs.len() > 5, fnv64(format!("{engine}{total}{k}{}", cuts.len()).as_bytes()));
    if rep.samples.len() < 3 {
        rep.sample(json!({"scenario": sc, "concurrent_scans": observed, "distinct_revisions": distinct_revs.len()}));
    }
    let _ = sm.stop();
    sm.close_storage();
}

pub fn run(args: &Args, scratch: &Path) -> ShardReport {
    let mut rep = ShardReport::new("scanrace");
    let seed = args.u64("seed", 1);
    let shard = args.u64("shard", 0);
    let runs = args.u64("runs", 20);
    let budget_s = args.u64("budget_s", 300);
    let mut seeder = Rng::new(seed.wrapping_mul(7_368_787) ^ shard.wrapping_mul(104_729));
    let t0 = std::time::Instant::now();
    let rt = super::rt();
    for run_no in 0..runs {
        if t0.elapsed().as_secs() >= budget_s {
            rep.notes.push(format!("time budget reached after {run_no} runs"));
            break;
        }
        let s = seeder.next() >> 1;
        let mut r = Rng::new(s);
        let engine: &'static str = if r.chance(1, 2) { "file" } else { "rocksdb" };
        let d1 = scratch.join(format!("c25-a{run_no}"));
        let d2 = scratch.join(format!("c25-b{run_no}"));
        let _ = std::fs::remove_dir_all(&d1);
        let _ = std::fs::remove_dir_all(&d2);
        rt.block_on(part1(engine, &d1, &mut r, &mut rep, s));
        part2(engine, &d2, &mut r, &mut rep, s);
        rep.count(&format!("runs_{engine}"), 1);
        let _ = std::fs::remove_dir_all(&d1);
        let _ = std::fs::remove_dir_all(&d2);
    }
    rep
}
