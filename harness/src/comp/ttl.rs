//! C23: TTL keys expire when due, overwrites/deletes cancel an earlier TTL, TTL state survives
//! restart.
//!
//! Real time, short TTLs (1-3 s), both state machines with the real `TtlLease`; the real
//! `lease_background_cleanup` is called every 200 ms exactly like the node's cleanup worker does
//! on its interval. Each scenario is a timed script over 4-30 keys (more than 10 TTL keys in a
//! third of them): put-with-TTL, later put-without-TTL / successful CAS / delete / delete-then-put
//! on some of them, optionally a close + reopen of the state machine in the middle. All keys are
//! polled every 100 ms. Many scenarios run concurrently so the wall cost is about one scenario.
//! Oracle per key, from the *last* write to it:
//!   * written with TTL d at time w: present until w+d (minus clock granularity), absent after
//!     w + d + cleanup interval + slack;
//!   * written without TTL (put or successful CAS) or deleted-then-put: present at the end, no
//!     matter what TTL an earlier write had;
//!   * deleted: absent.

use std::path::Path;
use std::path::PathBuf;
use std::sync::Arc;
use std::time::Duration;
use std::time::Instant;

use bytes::Bytes;
use d_engine_core::ApplyEntry;
use d_engine_core::Command;
use d_engine_core::StateMachine;
use serde_json::Value;
use serde_json::json;

use super::try_open_sm;
use crate::util::Args;
use crate::util::Rng;
use crate::util::ShardReport;
use crate::util::fnv64;

#[derive(Clone, Debug)]
enum Act {
    PutTtl(usize, u64),
    Put(usize),
    CasOk(usize),
    Del(usize),
    Restart,
}

#[derive(Clone, Debug)]
struct Step {
    at_ms: u64,
    act: Act,
}

fn key(i: usize) -> Bytes {
    Bytes::from(format!("t{i:02}").into_bytes())
}

struct Sc {
    engine: &'static str,
    nkeys: usize,
    steps: Vec<Step>,
    end_ms: u64,
}

fn gen_sc(r: &mut Rng) -> Sc {
    let engine = if r.chance(1, 2) { "file" } else { "rocksdb" };
    let nkeys = if r.chance(1, 3) { r.range(12, 30) } else { r.range(4, 9) } as usize;
    let mut steps = Vec::new();
    // every key starts with a TTL put in the first 300 ms; long-TTL keys first so that short
    // ones are not among the first entries of any map
    // in half of the large scenarios most keys never expire during the run and only a few are
    // short-lived: a cleanup pass that looks at a sample of the registered keys must still
    // find the few that are due
    let sparse = nkeys > 10 && r.chance(1, 2);
    for k in 0..nkeys {
        let ttl = if sparse {
            if k % 9 == 4 { 1 } else { 3600 }
        } else if k < nkeys / 2 {
            3
        } else {
            *r.pick(&[1u64, 1, 2])
        };
        steps.push(Step { at_ms: r.below(300), act: Act::PutTtl(k, ttl) });
    }
    // follow-ups on a third of the keys, between 400 and 900 ms (before any TTL elapses)
    for k in 0..nkeys {
        if !sparse && r.chance(1, 3) {
            let at = r.range(400, 900);
            let act = match r.below(5) {
                0 => Act::Put(k),
                1 => Act::CasOk(k),
                2 => Act::Del(k),
                3 => {
                    steps.push(Step { at_ms: at, act: Act::Del(k) });
                    steps.push(Step { at_ms: at + 40, act: Act::Put(k) });
                    continue;
                }
                _ => Act::PutTtl(k, *r.pick(&[1u64, 2])),
            };
            steps.push(Step { at_ms: at, act });
        }
    }
    if r.chance(1, 3) {
        steps.push(Step { at_ms: r.range(950, 1400), act: Act::Restart });
    }
    steps.sort_by_key(|s| s.at_ms);
    Sc { engine, nkeys, steps, end_ms: 5200 }
}

#[derive(Clone, Debug, PartialEq)]
enum Last {
    /// `at`: clock before the apply call, `done`: clock after it returned (the TTL was registered
    /// somewhere in between; on a loaded machine an apply with its fsync can take seconds)
    Ttl { at: u64, done: u64, ttl: u64 },
    Plain { how: &'static str },
    Deleted,
}

async fn run_sc(sc: Sc, dir: PathBuf, seed: u64) -> (Vec<(String, Value)>, Value, bool) {
    let mut bad: Vec<(String, Value)> = Vec::new();
    let engine = sc.engine;
    let mut sm: Arc<dyn StateMachine> = match try_open_sm(engine, &dir).await {
        Ok(s) => s,
        Err(e) => return (vec![(format!("open-failed[{engine}]"), json!({"err": e}))], json!({}), false),
    };
    let t0 = Instant::now();
    let now_ms = |t0: Instant| t0.elapsed().as_millis() as u64;
    let mut idx = 0u64;
    let mut last: Vec<Option<Last>> = vec![None; sc.nkeys];
    let mut value_of: Vec<Bytes> = vec![Bytes::new(); sc.nkeys];
    let mut step_i = 0usize;
    let mut next_cleanup = 200u64;
    let mut restarted_at: Option<u64> = None;
    // per key: last time seen present / first time seen absent after its last write
    let mut seen_present_at: Vec<Option<u64>> = vec![None; sc.nkeys];
    let mut first_absent_at: Vec<Option<u64>> = vec![None; sc.nkeys];
    let mut script_log: Vec<Value> = Vec::new();
    loop {
        let t = now_ms(t0);
        if t >= sc.end_ms {
            break;
        }
        while step_i < sc.steps.len() && sc.steps[step_i].at_ms <= t {
            let st = sc.steps[step_i].clone();
            step_i += 1;
            let t = now_ms(t0);
            match st.act {
                Act::Restart => {
                    let _ = sm.stop();
                    sm.close_storage();
                    drop(sm);
                    sm = match try_open_sm(engine, &dir).await {
                        Ok(s) => s,
                        Err(e) => return (vec![(format!("reopen-failed[{engine}]"), json!({"err": e}))], json!({}), false),
                    };
                    restarted_at = Some(t);
                    script_log.push(json!([t, "restart"]));
                }
                act => {
                    idx += 1;
                    let (k, cmd, l): (usize, Command, Last) = match act {
                        Act::PutTtl(k, ttl) => {
                            let v = Bytes::from(format!("v{idx}").into_bytes());
                            value_of[k] = v.clone();
                            (k, Command::Insert { key: key(k), value: v, ttl_secs: Some(ttl) }, Last::Ttl { at: t, done: t, ttl })
                        }
                        Act::Put(k) => {
                            let v = Bytes::from(format!("v{idx}").into_bytes());
                            value_of[k] = v.clone();
                            (k, Command::Insert { key: key(k), value: v, ttl_secs: None }, Last::Plain { how: "put" })
                        }
                        Act::CasOk(k) => {
                            let v = Bytes::from(format!("v{idx}").into_bytes());
                            let exp = if matches!(last[k], Some(Last::Deleted) | None) { None } else { Some(value_of[k].clone()) };
                            value_of[k] = v.clone();
                            (k, Command::CompareAndSwap { key: key(k), expected: exp, value: v }, Last::Plain { how: "cas" })
                        }
                        Act::Del(k) => (k, Command::Delete { key: key(k) }, Last::Deleted),
                        Act::Restart => unreachable!(),
                    };
                    script_log.push(json!([t, crate::model::show_cmd(&cmd)]));
                    match sm.apply_chunk(&[ApplyEntry { index: idx, term: 1, command: cmd }]).await {
                        Ok(rs) => {
                            if matches!(l, Last::Plain { how: "cas" }) && !rs.first().map(|x| x.succeeded).unwrap_or(false) {
                                // the CAS found the key already expired: the key keeps its state
                                continue;
                            }
                            let l = match l {
                                Last::Ttl { at, ttl, .. } => Last::Ttl { at, done: now_ms(t0), ttl },
                                other => other,
                            };
                            last[k] = Some(l);
                            seen_present_at[k] = None;
                            first_absent_at[k] = None;
                        }
                        Err(e) => return (vec![(format!("apply-failed[{engine}]"), json!({"err": format!("{e:?}")}))], json!({}), false),
                    }
                }
            }
        }
        let t = now_ms(t0);
        if t >= next_cleanup {
            next_cleanup = t + 200;
            let _ = sm.lease_background_cleanup().await;
        }
        let t = now_ms(t0);
        for k in 0..sc.nkeys {
            let present = sm.get(&key(k)).ok().flatten().is_some();
            if present {
                seen_present_at[k] = Some(t);
            } else if first_absent_at[k].is_none() {
                // clock *after* the read: the key was gone no later than this
                first_absent_at[k] = Some(now_ms(t0));
            }
        }
        tokio::time::sleep(Duration::from_millis(100)).await;
    }
    // verdicts. Every bound is taken from the clock read on the safe side of the call it is
    // about (the process may be stalled for seconds between two statements on a loaded machine):
    // a final cleanup is started, its start time is what "the key was due long ago" is judged by.
    let final_cleanup_started = now_ms(t0);
    let _ = sm.lease_background_cleanup().await;
    let many = sc.nkeys > 10;
    for k in 0..sc.nkeys {
        let Some(l) = &last[k] else { continue };
        let present_end = sm.get(&key(k)).ok().flatten().is_some();
        let d = json!({"key": format!("t{k:02}"), "last_write": format!("{l:?}"), "first_seen_absent_at_ms": first_absent_at[k], "last_seen_present_at_ms": seen_present_at[k], "restarted_at_ms": restarted_at, "ttl_keys_in_scenario": sc.nkeys});
        match l {
            Last::Ttl { at, done, ttl } => {
                // registered between `at` and `done`: due no earlier than at + ttl, no later than
                // done + ttl
                let due = at + ttl * 1000;
                let due_latest = done + ttl * 1000;
                if let Some(a) = first_absent_at[k]
                    && a + 300 < due
                {
                    let sig = if restarted_at.is_some_and(|r| r <= a) { "ttl-key-gone-before-due-after-restart" } else { "ttl-key-gone-before-due" };
                    bad.push((format!("{sig}[{engine}]"), d.clone()));
                }
                // cleanup runs every 200 ms; allow 1.2 s of slack on top (second granularity)
                if present_end && final_cleanup_started > due_latest + 1400 {
                    let sig = if restarted_at.is_some_and(|r| r < due) {
                        "expired-key-still-present:ttl-lost-over-restart"
                    } else if many {
                        "expired-key-still-present:more-than-10-ttl-keys"
                    } else {
                        "expired-key-still-present"
                    };
                    bad.push((format!("{sig}[{engine}]"), d.clone()));
                }
            }
            Last::Plain { how } => {
                if !present_end {
                    bad.push((format!("key-rewritten-without-ttl-removed-by-earlier-ttl:{how}[{engine}]"), d.clone()));
                }
            }
            Last::Deleted => {
                if present_end {
                    bad.push((format!("deleted-key-present[{engine}]"), d.clone()));
                }
            }
        }
    }
    let _ = sm.stop();
    sm.close_storage();
    let _ = std::fs::remove_dir_all(&dir);
    let desc = json!({"seed": seed, "engine": engine, "keys": sc.nkeys, "restart": restarted_at.is_some(), "script": script_log});
    (bad, desc, restarted_at.is_some())
}

async fn debug_restart(engine: &str, dir: &Path) {
    let sm = try_open_sm(engine, dir).await.unwrap();
    let _ = sm.apply_chunk(&[ApplyEntry { index: 1, term: 1, command: Command::Insert { key: key(1), value: Bytes::from_static(b"x"), ttl_secs: Some(2) } }]).await;
    eprintln!("[{engine}] before stop: get={:?}", sm.get(&key(1)).ok().flatten().is_some());
    eprintln!("[{engine}] stop: {:?}", sm.stop());
    sm.close_storage();
    drop(sm);
    eprintln!("[{engine}] files: {:?}", std::fs::read_dir(dir).map(|d| d.filter_map(|e| e.ok().map(|e| (e.file_name(), e.metadata().map(|m| m.len()).unwrap_or(0)))).collect::<Vec<_>>()));
    let sm = try_open_sm(engine, dir).await.unwrap();
    eprintln!("[{engine}] after reopen: get={:?}", sm.get(&key(1)).ok().flatten().is_some());
    for i in 0..16 {
        tokio::time::sleep(Duration::from_millis(250)).await;
        let c = sm.lease_background_cleanup().await;
        eprintln!("[{engine}] t={}ms cleanup={:?} get={:?}", (i + 1) * 250, c.map(|v| v.len()), sm.get(&key(1)).ok().flatten().is_some());
    }
}

pub fn run(args: &Args, scratch: &Path) -> ShardReport {
    let mut rep = ShardReport::new("ttl");
    if args.has("debug") {
        let rt = tokio::runtime::Builder::new_multi_thread().worker_threads(2).enable_all().build().expect("rt");
        rt.block_on(debug_restart("file", &scratch.join("dbg-file")));
        rt.block_on(debug_restart("rocksdb", &scratch.join("dbg-rocks")));
        return rep;
    }
    let seed = args.u64("seed", 1);
    let shard = args.u64("shard", 0);
    let runs = args.u64("runs", 8);
    let rt = tokio::runtime::Builder::new_multi_thread().worker_threads(2).enable_all().build().expect("rt");
    let mut seeder = Rng::new(seed.wrapping_mul(1_000_003) ^ shard.wrapping_mul(7_477));
    let results = rt.block_on(async {
        let mut hs = Vec::new();
        for i in 0..runs {
            let s = seeder.next() >> 1;
            let mut r = Rng::new(s);
            let sc = gen_sc(&mut r);
            let dir = scratch.join(format!("ttl-{i}"));
            let _ = std::fs::remove_dir_all(&dir);
            hs.push((sc.engine, sc.nkeys, sc.steps.len(), tokio::spawn(run_sc(sc, dir, s))));
        }
        let mut out = Vec::new();
        for (e, n, st, h) in hs {
            out.push((e, n, st, h.await));
        }
        out
    });
    for (engine, nkeys, nsteps, r) in results {
        match r {
            Err(e) => rep.inconclusive.push(format!("scenario task failed: {e:?}")),
            Ok((bad, desc, restarted)) => {
                rep.eval(true, fnv64(format!("{engine}{nkeys}{nsteps}{restarted}").as_bytes()));
                rep.count(&format!("scenarios_{engine}"), 1);
                rep.count("keys_watched", nkeys as u64);
                if restarted {
                    rep.count("scenarios_with_restart", 1);
                }
                if nkeys > 10 {
                    rep.count("scenarios_with_more_than_10_ttl_keys", 1);
                }
                if rep.samples.len() < 2 {
                    rep.sample(desc.clone());
                }
                let mut seen = std::collections::BTreeSet::new();
                for (sig, d) in bad {
                    if seen.insert(sig.clone()) {
                        rep.violation("C23", &sig, json!({"detail": d}), desc.clone());
                    }
                }
            }
        }
    }
    rep
}
