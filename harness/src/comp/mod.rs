//! Component monitors: drive one real component directly with generated operation sequences
//! and compare every answer with a small deterministic reference model.

pub mod config;
pub mod kv;
pub mod memstore;
pub mod storage;
pub mod buflog;
pub mod smcrash;
pub mod replconv;
pub mod metacrash;
pub mod scanrace;
pub mod ttl;

use std::path::Path;
use std::sync::Arc;

use d_engine_core::StateMachine;
use d_engine_core::config::LeaseConfig;
use d_engine_server::FileStateMachine;
use d_engine_server::RocksDBStateMachine;
use d_engine_server::storage::TtlLease;

pub fn rt() -> tokio::runtime::Runtime {
    tokio::runtime::Builder::new_multi_thread()
        .worker_threads(2)
        .enable_all()
        .build()
        .expect("runtime")
}

pub fn lease_cfg() -> LeaseConfig {
    LeaseConfig::default()
}

pub async fn open_file_sm(dir: &Path) -> Arc<dyn StateMachine> {
    let mut sm = FileStateMachine::new(dir.to_path_buf()).await.expect("file sm");
    sm.set_lease(Arc::new(TtlLease::new(lease_cfg())));
    let sm: Arc<dyn StateMachine> = Arc::new(sm);
    sm.start().await.expect("start");
    sm
}

pub async fn open_rocks_sm(dir: &Path) -> Arc<dyn StateMachine> {
    std::fs::create_dir_all(dir).ok();
    let mut sm = RocksDBStateMachine::new(dir).expect("rocks sm");
    sm.set_lease(Arc::new(TtlLease::new(lease_cfg())));
    let sm: Arc<dyn StateMachine> = Arc::new(sm);
    sm.start().await.expect("start");
    sm
}

pub async fn try_open_sm(engine: &str, dir: &Path) -> Result<Arc<dyn StateMachine>, String> {
    if engine == "file" {
        let mut sm = FileStateMachine::new(dir.to_path_buf()).await.map_err(|e| format!("{e:?}"))?;
        sm.set_lease(Arc::new(TtlLease::new(lease_cfg())));
        let sm: Arc<dyn StateMachine> = Arc::new(sm);
        sm.start().await.map_err(|e| format!("{e:?}"))?;
        Ok(sm)
    } else {
        std::fs::create_dir_all(dir).ok();
        let mut sm = RocksDBStateMachine::new(dir).map_err(|e| format!("{e:?}"))?;
        sm.set_lease(Arc::new(TtlLease::new(lease_cfg())));
        let sm: Arc<dyn StateMachine> = Arc::new(sm);
        sm.start().await.map_err(|e| format!("{e:?}"))?;
        Ok(sm)
    }
}
