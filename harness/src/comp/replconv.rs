//! Leader <-> follower replication conversations on real components (no network, no Raft loop):
//! the real request builder (`prepare_peer_entries` + `build_append_request`), the real follower
//! accept path (`ReplicationHandler::handle_append_entries` on a real `BufferedRaftLog`), the real
//! reply interpretation (`handle_success_response` / `handle_conflict_response`). Only the
//! leader's two index maps are mirrored here (next = max(ack+1, next) on success, hint floored at
//! match+1 on conflict, match only advances), exactly as `LeaderState::update_peer_index` does.
//!
//! Shapes are enumerated over a small scope: leader log (terms non-decreasing, <= 9 entries),
//! follower log = common prefix + optional stale tail of a deposed leader / lagging / empty,
//! starting next_index anywhere in 1..=last+1 (1 = after a stream error before the first ack),
//! per-request cap 1..5, pipeline depth 1..3, leader appending new entries while it catches the
//! follower up. Oracles after every exchange:
//!   C08  requests are contiguous from prev+1; the follower log has no gap
//!   C09  a success acknowledgement is truthful: follower == leader on 1..=last_match
//!   C05  the follower never loses an entry that equals the leader's entry at that index, and
//!        (bounded progress) the follower equals the leader after a bounded number of exchanges
//!   C04  follower and leader agreeing at (i, term) agree on every j < i
//!   C07  a commit index update never exceeds the prefix the request verified

use std::collections::HashMap;
use std::path::Path;
use std::sync::Arc;

use bytes::Bytes;
use d_engine_core::BufferedRaftLog;
use d_engine_core::PersistenceConfig;
use d_engine_core::RaftLog;
use d_engine_core::ReplicationCore;
use d_engine_core::ReplicationData;
use d_engine_core::ReplicationHandler;
use d_engine_core::StateSnapshot;
use d_engine_proto::common::Entry;
use d_engine_proto::common::EntryPayload;
use d_engine_proto::common::entry_payload::Payload;
use d_engine_proto::server::replication::AppendEntriesRequest;
use d_engine_proto::server::replication::append_entries_response;
use d_engine_server::FileStateMachine;
use serde_json::Value;
use serde_json::json;

use super::memstore::MemEngine;
use crate::sim::node::SimTC;
use crate::util::Args;
use crate::util::Rng;
use crate::util::ShardReport;
use crate::util::fnv64;

type TC = SimTC<MemEngine, FileStateMachine>;
type Log = BufferedRaftLog<TC>;

fn mk(index: u64, term: u64, who: &str) -> Entry {
    Entry {
        index,
        term,
        payload: Some(EntryPayload { payload: Some(Payload::Command(Bytes::from(format!("{who}-{index}-{term}").into_bytes()))) }),
    }
}

fn sig(e: &Entry) -> (u64, u64, u64) {
    let h = match e.payload.as_ref().and_then(|p| p.payload.as_ref()) {
        Some(Payload::Command(b)) => fnv64(b),
        _ => 0,
    };
    (e.index, e.term, h)
}

fn dump(log: &Arc<Log>) -> Vec<(u64, u64, u64)> {
    let (f, l) = (log.first_entry_id(), log.last_entry_id());
    if l == 0 {
        return vec![];
    }
    log.get_entries_range(f.max(1)..=l).unwrap_or_default().iter().map(sig).collect()
}

#[derive(Clone, Debug)]
pub struct Shape {
    /// leader log terms (index i+1 has term leader[i])
    pub leader: Vec<u64>,
    /// follower keeps this many leader entries ...
    pub common: usize,
    /// ... followed by a stale tail with these terms (entries of a deposed leader)
    pub stale: Vec<u64>,
    pub next0: u64,
    pub cap: u64,
    pub depth: usize,
    /// new entries the leader appends before each round (cycled)
    pub growth: Vec<u64>,
    pub leader_term: u64,
}

impl Shape {
    fn show(&self) -> Value {
        json!({"leader_terms": self.leader, "follower_common_prefix": self.common, "follower_stale_tail_terms": self.stale,
               "next_index_start": self.next0, "cap": self.cap, "pipeline_depth": self.depth, "leader_growth_per_round": self.growth, "leader_term": self.leader_term})
    }
}

async fn new_log() -> Arc<Log> {
    let eng = Arc::new(MemEngine::new());
    let (log, rx) = Log::new(1, PersistenceConfig::default(), eng);
    log.start(rx, None)
}

/// Runs one conversation; returns (violations, exchanges, converged)
async fn converse(sh: &Shape) -> (Vec<(&'static str, String, Value)>, u64, bool) {
    let mut bad: Vec<(&'static str, String, Value)> = Vec::new();
    let leader = new_log().await;
    let follower = new_log().await;
    let les: Vec<Entry> = sh.leader.iter().enumerate().map(|(i, t)| mk(i as u64 + 1, *t, "L")).collect();
    if !les.is_empty() {
        let _ = leader.insert_batch(les.clone()).await;
    }
    let mut fes: Vec<Entry> = les[..sh.common.min(les.len())].to_vec();
    for (k, t) in sh.stale.iter().enumerate() {
        fes.push(mk(sh.common as u64 + 1 + k as u64, *t, "S"));
    }
    if !fes.is_empty() {
        let _ = follower.insert_batch(fes.clone()).await;
    }
    let lh = ReplicationHandler::<TC>::new(1);
    let fh = ReplicationHandler::<TC>::new(2);
    let mut next: u64 = sh.next0.max(1);
    let mut mat: u64 = 0;
    let mut f_commit: u64 = 0;
    let mut l_commit: u64 = 0;
    let mut exchanges = 0u64;
    let max_rounds = 6 * (sh.leader.len() as u64 + sh.stale.len() as u64 + 12);
    let mut converged = false;
    let mut growth_i = 0usize;
    let mut history: Vec<Value> = Vec::new();
    'outer: for round in 0..max_rounds {
        // leader grows (real generate_new_entries) during the first rounds only, so that
        // convergence is well defined afterwards
        let mut new_entries: Vec<Entry> = Vec::new();
        if round < 6 && !sh.growth.is_empty() {
            let n = sh.growth[growth_i % sh.growth.len()];
            growth_i += 1;
            if n > 0 {
                let payloads: Vec<EntryPayload> = (0..n)
                    .map(|k| EntryPayload { payload: Some(Payload::Command(Bytes::from(format!("N-{round}-{k}").into_bytes()))) })
                    .collect();
                let last_before = leader.last_entry_id();
                match lh.generate_new_entries(payloads, sh.leader_term, &leader).await {
                    Ok(es) => new_entries = es,
                    Err(e) => {
                        bad.push(("C08", "leader-append-error".into(), json!({"err": format!("{e:?}")})));
                        break;
                    }
                }
                let _ = last_before;
            }
        }
        // build up to `depth` pipelined requests with speculative next_index advance
        let mut reqs: Vec<AppendEntriesRequest> = Vec::new();
        // pipelining only while the leader is still growing: afterwards one request at a time,
        // so that the bounded-progress oracle does not depend on a particular reply schedule
        let depth = if round < 6 { sh.depth } else { 1 };
        for d in 0..depth {
            let leader_last_before = leader.last_entry_id() - if d == 0 { new_entries.len() as u64 } else { 0 };
            let data = ReplicationData {
                leader_last_index_before: leader_last_before,
                current_term: sh.leader_term,
                commit_index: l_commit,
                peer_next_indices: HashMap::from([(2u32, next)]),
            };
            let ne: &[Entry] = if d == 0 { &new_entries } else { &[] };
            let mut per_peer = lh.prepare_peer_entries(ne, &data, sh.cap, &leader);
            let (_, req) = lh.build_append_request(&leader, 2, &mut per_peer, &data);
            // C08 (a): contiguous
            let mut expect = req.prev_log_index + 1;
            for e in &req.entries {
                if e.index != expect {
                    bad.push(("C08", "non-contiguous-append-request[component]".into(), json!({"prev": req.prev_log_index, "entries": req.entries.iter().map(|e| e.index).collect::<Vec<_>>()})));
                    break 'outer;
                }
                expect += 1;
            }
            // speculative advance as execute_and_process_raft_rpc Phase 5 does
            next = req.prev_log_index + req.entries.len() as u64 + 1;
            let empty = req.entries.is_empty();
            reqs.push(req);
            if empty {
                break;
            }
        }
        // follower handles them in order, leader handles replies in order
        for req in reqs {
            exchanges += 1;
            let before = dump(&follower);
            let ldump = dump(&leader);
            let snap = StateSnapshot { role: 1, current_term: sh.leader_term, voted_for: None, commit_index: f_commit };
            let verified = req.prev_log_index + req.entries.len() as u64;
            let r = match fh.handle_append_entries(req.clone(), &snap, &follower).await {
                Ok(r) => r,
                Err(e) => {
                    if std::env::var("DVERIF_DEBUG").is_ok() {
                        eprintln!("append error {e:?}; req prev={} n={}; history={:?}; follower dump={:?}; second reset={:?}", req.prev_log_index, req.entries.len(), history, dump(&follower), follower.reset().await);
                    }
                    bad.push(("C08", "follower-append-error".into(), json!({"err": format!("{e:?}")})));
                    break 'outer;
                }
            };
            let after = dump(&follower);
            history.push(json!({"prev": [req.prev_log_index, req.prev_log_term], "n": req.entries.len(), "reply": format!("{:?}", r.response.result).chars().take(90).collect::<String>(), "follower_last": after.last().map(|e| e.0)}));
            // C08 (b) gap-free follower log
            for w in after.windows(2) {
                if w[1].0 != w[0].0 + 1 {
                    bad.push(("C08", "gap-in-follower-log[component]".into(), json!({"at": w[0].0, "next": w[1].0})));
                    break 'outer;
                }
            }
            let lmap: HashMap<u64, (u64, u64)> = ldump.iter().map(|e| (e.0, (e.1, e.2))).collect();
            let amap: HashMap<u64, (u64, u64)> = after.iter().map(|e| (e.0, (e.1, e.2))).collect();
            // C05: never lose an entry equal to the leader's
            for e in &before {
                if lmap.get(&e.0) == Some(&(e.1, e.2)) && amap.get(&e.0) != Some(&(e.1, e.2)) {
                    bad.push(("C05", "follower-discarded-entry-matching-the-leader[component]".into(), json!({"index": e.0, "term": e.1, "request_prev": req.prev_log_index, "request_entries": req.entries.len()})));
                    break 'outer;
                }
            }
            // C04: agreement at i implies agreement below
            if let Some(top) = after.iter().rev().find(|e| lmap.get(&e.0).map(|x| x.0) == Some(e.1)) {
                for e in after.iter().filter(|e| e.0 < top.0) {
                    if let Some(l) = lmap.get(&e.0)
                        && *l != (e.1, e.2)
                    {
                        bad.push(("C04", "prefix-differs-below-matching-entry[component]".into(), json!({"agree_at": top.0, "differ_at": e.0, "follower_term": e.1, "leader_term": l.0})));
                        break 'outer;
                    }
                }
            }
            // C07: commit update bounded by what this request verified
            if let Some(c) = r.commit_index_update {
                if c > verified.max(f_commit) || c > req.leader_commit_index.max(f_commit) {
                    bad.push(("C07", "follower-commit-beyond-verified-prefix[component]".into(), json!({"commit_update": c, "verified_upto": verified, "leader_commit": req.leader_commit_index})));
                    break 'outer;
                }
                f_commit = f_commit.max(c);
            }
            match r.response.result.clone() {
                Some(append_entries_response::Result::Success(s)) => {
                    let m = s.last_match.map(|l| l.index).unwrap_or(0);
                    // C09: truthful acknowledgement
                    for i in 1..=m {
                        if amap.get(&i) != lmap.get(&i) || !amap.contains_key(&i) {
                            // keep going: what the stale acknowledgement leads to (commit on an
                            // entry the follower lacks, a divergence that is never repaired) is
                            // C05's part of the story
                            if !bad.iter().any(|b| b.0 == "C09") {
                                bad.push(("C09", "untruthful-success-acknowledgement[component]".into(), json!({"last_match": m, "first_difference_at": i, "follower_has": amap.get(&i).map(|x| x.0), "leader_has": lmap.get(&i).map(|x| x.0), "request_prev": [req.prev_log_index, req.prev_log_term], "request_entries": req.entries.len()})));
                            }
                            break;
                        }
                    }
                    if let Ok(u) = lh.handle_success_response(2, r.response.term, s, sh.leader_term) {
                        next = u.next_index.max(next);
                        if let Some(mi) = u.match_index {
                            mat = mat.max(mi);
                        }
                    }
                    // single follower + leader = majority of 2 voters... keep the leader commit
                    // at the acknowledged index of current-term entries (what a 3-voter leader
                    // with one other up-to-date voter would do)
                    if leader.entry_term(mat) == Some(sh.leader_term) {
                        l_commit = l_commit.max(mat);
                    }
                }
                Some(append_entries_response::Result::Conflict(c)) => {
                    if let Ok(u) = lh.handle_conflict_response(2, c, &leader, next) {
                        next = u.next_index.max(mat + 1);
                    }
                }
                _ => {}
            }
        }
        if round >= 6 && dump(&follower) == dump(&leader) {
            converged = true;
            break;
        }
    }
    if !bad.iter().any(|b| b.0 != "C09") && !converged {
        let keep = history.len().saturating_sub(8);
        bad.push((
            "C05",
            "follower-never-converges-to-leader-log[component]".into(),
            json!({"exchanges": exchanges, "leader_log": dump(&leader).iter().map(|e| json!([e.0, e.1])).collect::<Vec<_>>(), "follower_log": dump(&follower).iter().map(|e| json!([e.0, e.1])).collect::<Vec<_>>(), "next_index": next, "match_index": mat, "last_exchanges": history[keep..].to_vec()}),
        ));
    }
    // the IO thread keeps its own strong reference until it is told to shut down
    leader.close().await;
    follower.close().await;
    (bad, exchanges, converged)
}

fn gen_shape(r: &mut Rng) -> Shape {
    // leader log: 1..=9 entries, terms non-decreasing 1..=4, current term >= last
    let n = r.range(1, 9) as usize;
    let mut t = 1u64;
    let mut leader = Vec::new();
    for _ in 0..n {
        if r.chance(1, 3) {
            t += 1;
        }
        leader.push(t);
    }
    let leader_term = t + r.below(2);
    // A leader appends its no-op before it sends anything: its log always ends with at least one
    // entry of its own term (a leader without one is not a reachable state).
    if leader_term > t {
        leader.push(leader_term);
    }
    let n = leader.len();
    let common = r.below(n as u64 + 1) as usize;
    // stale tail: terms >= term at the common point, but *lower* than the leader's entries there
    // would be in a real history; we allow anything <= leader_term - 0 that differs
    let mut stale = Vec::new();
    if r.chance(1, 2) {
        // Entries of a deposed leader: terms non-decreasing, not below the term at the common
        // point, below the current leader's term, and never a term the leader's own log uses
        // after the common point (two logs holding entries of one term agree on them).
        let k = r.range(1, 5) as usize;
        let base = if common > 0 { leader[common - 1] } else { 1 };
        let used: Vec<u64> = leader[common..].to_vec();
        let mut cur = base;
        for _ in 0..k {
            let cands: Vec<u64> = (cur..leader_term).filter(|t| !used.contains(t)).collect();
            if cands.is_empty() {
                break;
            }
            cur = *r.pick(&cands);
            stale.push(cur);
        }
    }
    let last = n as u64;
    let next0 = match r.below(4) {
        0 => 1,
        1 => last + 1,
        _ => r.range(1, last + 1),
    };
    Shape {
        leader,
        common,
        stale,
        next0,
        cap: *r.pick(&[1, 2, 3, 5]),
        depth: r.range(1, 3) as usize,
        growth: match r.below(3) {
            0 => vec![],
            1 => vec![1],
            _ => vec![2, 0, 1],
        },
        leader_term,
    }
}

pub fn run(args: &Args, _scratch: &Path) -> ShardReport {
    let mut rep = ShardReport::new("replconv");
    let seed = args.u64("seed", 1);
    let shard = args.u64("shard", 0);
    let runs = args.u64("runs", 500);
    let only: Vec<String> = args.str("props", "").split(',').filter(|s| !s.is_empty()).map(|s| s.to_string()).collect();
    let rt = super::rt();
    let mut seeder = Rng::new(seed.wrapping_mul(0x9E37_79B9) ^ shard.wrapping_mul(6151));
    if args.has("debug") {
        rt.block_on(async {
            let l = new_log().await;
            eprintln!("fresh reset: {:?}", l.reset().await);
            let _ = l.insert_batch(vec![mk(1, 1, "x")]).await;
            eprintln!("second reset: {:?}", l.reset().await);
            eprintln!("third reset: {:?}", l.reset().await);
            let f = new_log().await;
            let fh = ReplicationHandler::<TC>::new(2);
            let snap = StateSnapshot { role: 1, current_term: 2, voted_for: None, commit_index: 0 };
            let req = AppendEntriesRequest { term: 2, leader_id: 1, prev_log_index: 3, prev_log_term: 1, entries: vec![mk(4, 2, "L")], leader_commit_index: 0 };
            eprintln!("conflict: {:?}", fh.handle_append_entries(req, &snap, &f).await.map(|r| r.response));
            eprintln!("reset after conflict: {:?}", f.reset().await);
            let g = new_log().await;
            tokio::time::sleep(std::time::Duration::from_millis(1500)).await;
            eprintln!("reset after 1.5s idle: {:?}", g.reset().await);
        });
    }
    rt.block_on(async {
        let budget_s = args.u64("budget_s", 600);
        let t0 = std::time::Instant::now();
        for run_no in 0..runs {
            if run_no % 64 == 0 && t0.elapsed().as_secs() >= budget_s {
                rep.notes.push(format!("time budget reached after {run_no} runs"));
                break;
            }
            let s = seeder.next();
            let mut r = Rng::new(s);
            let sh = gen_shape(&mut r);
            let (bad, exchanges, converged) = converse(&sh).await;
            let nontrivial = !sh.stale.is_empty() || sh.common < sh.leader.len();
            let sigv = fnv64(format!("{:?}{}{:?}{}{}{}", sh.leader, sh.common, sh.stale, sh.next0, sh.cap, sh.depth).as_bytes());
            rep.eval(nontrivial, sigv);
            rep.count("exchanges", exchanges);
            rep.count("converged", converged as u64);
            if !sh.stale.is_empty() {
                rep.count("shapes_with_stale_tail", 1);
            }
            if sh.next0 == 1 {
                rep.count("shapes_starting_at_next_index_1", 1);
            }
            if rep.samples.len() < 3 && nontrivial {
                rep.sample(sh.show());
            }
            for (p, sg, d) in bad {
                if only.is_empty() || only.iter().any(|x| x == p) {
                    rep.violation(p, &sg, json!({"detail": d}), json!({"seed": s, "shape": sh.show()}));
                } else {
                    rep.count(&format!("other_findings.{p}.{sg}"), 1);
                }
            }
        }
    });
    rep
}
