//! C34: every configuration accepted by validation satisfies the safety timing constraints.

use std::path::Path;

use d_engine_core::RaftConfig;
use serde_json::json;

use crate::util::Args;
use crate::util::Rng;
use crate::util::ShardReport;
use crate::util::fnv64;

#[derive(Clone, Copy, Debug)]
struct Vals {
    emin: u64,
    emax: u64,
    lease: u64,
    rtt: u64,
    hb: u64,
    batch: u64,
    merge: u64,
    cap: u64,
    retained: u64,
}

fn build(v: &Vals, snapdir: &Path) -> RaftConfig {
    let mut c = RaftConfig::default();
    c.snapshot.snapshots_dir = snapdir.to_path_buf();
    c.election.election_timeout_min = v.emin;
    c.election.election_timeout_max = v.emax;
    c.read_consistency.lease_duration_ms = v.lease;
    c.read_consistency.network_rtt_p99_ms = v.rtt;
    c.replication.rpc_append_entries_clock_in_ms = v.hb;
    c.replication.append_entries_max_entries_per_replication = v.cap;
    c.batching.max_batch_size = v.batch as usize;
    c.batching.max_merge_entries = v.merge as usize;
    c.snapshot.retained_log_entries = v.retained;
    c
}

/// the statement, in exact (u128) arithmetic; returns the violated clause
fn violated_clause(v: &Vals) -> Option<&'static str> {
    // lease + rtt/2 < emin. For integers a, m: a + r/2 < m (r/2 rational) <=> a + floor(r/2) < m
    // when r is even, and <=> a + floor(r/2) + 1 <= m - ... — equivalent for odd r as well,
    // because a + k + 0.5 < m <=> a + k < m for integers. So the floor form is exact.
    if !((v.lease as u128) + (v.rtt as u128 / 2) < v.emin as u128) {
        return Some("lease-window-not-shorter-than-min-election-timeout");
    }
    if !(v.emin < v.emax) {
        return Some("election-min-not-below-max");
    }
    if v.hb == 0 {
        return Some("zero-heartbeat");
    }
    if v.batch == 0 || v.merge == 0 {
        return Some("zero-batch-limit");
    }
    if v.cap == 0 {
        return Some("zero-per-request-entry-limit");
    }
    if v.retained == 0 {
        return Some("zero-retained-log-entries");
    }
    None
}

pub fn run(args: &Args, scratch: &Path) -> ShardReport {
    let mut rep = ShardReport::new("config");
    let seed = args.u64("seed", 1);
    let shard = args.u64("shard", 0);
    let runs = args.u64("runs", 100_000);
    let snapdir = scratch.join("snapshots");
    std::fs::create_dir_all(&snapdir).ok();
    let m = u64::MAX;
    let big: [u64; 10] = [0, 1, 2, 3, 100, 250, 500, 1000, m - 1, m];
    let small: [u64; 4] = [0, 1, 2, m];
    let mut accepted = 0u64;
    let mut rejected = 0u64;
    let mut classes = std::collections::BTreeSet::new();
    let mut check = |v: Vals, rep: &mut ShardReport| {
        let c = build(&v, &snapdir);
        let ok = c.validate().is_ok();
        let clause = violated_clause(&v);
        let class = fnv64(
            format!(
                "{ok}{:?}{}{}{}{}",
                clause,
                v.lease.cmp(&v.emin) as i8,
                v.emin.cmp(&v.emax) as i8,
                (v.rtt % 2),
                (v.hb == 0) as u8 + 2 * (v.cap == 0) as u8 + 4 * (v.retained == 0) as u8 + 8 * (v.batch == 0) as u8
            )
            .as_bytes(),
        );
        classes.insert(class);
        rep.eval(true, class);
        if ok {
            accepted += 1;
            if let Some(cl) = clause {
                rep.violation(
                    "C34",
                    &format!("accepted-config-violates-{cl}"),
                    json!({"config": format!("{v:?}")}),
                    json!({"config": format!("{v:?}")}),
                );
            }
            if rep.samples.len() < 2 {
                rep.sample(json!({"accepted": format!("{v:?}")}));
            }
        } else {
            rejected += 1;
            if rep.samples.len() < 4 && clause.is_some() {
                rep.sample(json!({"rejected": format!("{v:?}"), "clause": clause}));
            }
        }
    };
    // Exhaustive boundary grid (shard 0 only): timing fields crossed over `big`, limits over
    // `small`; neighbours of the lease/election boundary added explicitly.
    if shard == 0 {
        for &emin in &big {
            for &emax in &big {
                for &lease in &big {
                    for &rtt in &[0u64, 1, 2, 3, 4, m - 1, m] {
                        for &hb in &[0u64, 1, 100] {
                            let v = Vals { emin, emax, lease, rtt, hb, batch: 100, merge: 1000, cap: 100, retained: 1 };
                            check(v, &mut rep);
                        }
                    }
                }
            }
        }
        for &batch in &small {
            for &merge in &small {
                for &cap in &small {
                    for &retained in &small {
                        for &hb in &small {
                            let v = Vals { emin: 500, emax: 1000, lease: 250, rtt: 2, hb, batch, merge, cap, retained };
                            check(v, &mut rep);
                        }
                    }
                }
            }
        }
        // dense scan around the lease boundary: lease + rtt/2 vs emin
        for emin in 1..=12u64 {
            for lease in 0..=14u64 {
                for rtt in 0..=9u64 {
                    let v = Vals { emin, emax: emin + 1, lease, rtt, hb: 1, batch: 1, merge: 1, cap: 1, retained: 1 };
                    check(v, &mut rep);
                }
            }
        }
        for d in 0..=4u64 {
            for rtt in [0u64, 1, 2, 3, m, m - 1] {
                let v = Vals { emin: m - d, emax: m, lease: m - d, rtt, hb: 1, batch: 1, merge: 1, cap: 1, retained: 1 };
                check(v, &mut rep);
                let v = Vals { emin: m, emax: m, lease: m - d, rtt, hb: 1, batch: 1, merge: 1, cap: 1, retained: 1 };
                check(v, &mut rep);
            }
        }
        rep.exhaustive = true;
    }
    // Random part
    let mut r = Rng::new(seed.wrapping_mul(977) ^ shard);
    let pick = |r: &mut Rng| -> u64 {
        match r.below(6) {
            0 => *r.pick(&big),
            1 => r.below(20),
            2 => r.range(90, 1100),
            3 => m - r.below(5),
            4 => r.next(),
            _ => r.below(3000),
        }
    };
    for _ in 0..runs {
        let emin = pick(&mut r);
        let lease = match r.below(4) {
            0 => emin.saturating_sub(r.below(4)),
            1 => emin.saturating_add(r.below(3)),
            _ => pick(&mut r),
        };
        let v = Vals {
            emin,
            emax: if r.chance(1, 2) { emin.saturating_add(r.below(3)) } else { pick(&mut r) },
            lease,
            rtt: if r.chance(1, 2) { r.below(8) } else { pick(&mut r) },
            hb: if r.chance(1, 5) { 0 } else { pick(&mut r) },
            batch: if r.chance(1, 5) { 0 } else { r.below(2000) },
            merge: if r.chance(1, 5) { 0 } else { r.below(2000) },
            cap: if r.chance(1, 5) { 0 } else { pick(&mut r) },
            retained: if r.chance(1, 4) { 0 } else { pick(&mut r) },
        };
        check(v, &mut rep);
    }
    rep.count("accepted", accepted);
    rep.count("rejected", rejected);
    rep
}
