//! C15: each committed entry is reflected exactly once across crashes of the state machine.
//!
//! A *child process* (this same binary, `smcrash-child`) opens the real File or RocksDB state
//! machine in a directory, applies a seeded command script chunk by chunk and is killed at a
//! chosen crash point:
//!   * `exit`  — `_exit()` right after the k-th `apply_chunk` returned (optionally after an
//!               explicit `flush()`), i.e. between apply batches, no destructor runs;
//!   * `sys`   — `strace -f -e inject=<write-class syscalls>:signal=KILL:when=N`: the process is
//!               killed on entry to its N-th write-class syscall, i.e. inside a batch / inside a
//!               checkpoint (process-crash model: everything written so far survives);
//!   * `twice` — like `exit`, then the directory is reopened and dropped by a second child that is
//!               `_exit`ed right after opening (recovery must itself be crash-safe).
//! The parent then reopens the directory with a fresh state-machine instance and checks
//!   (1) the content equals the reference model folded over entries 1..=L' where L' is the
//!       `last_applied` index the reopened state machine reports,
//!   (2) re-applying entries L'+1..=N (what the Raft layer does after a restart) yields the CAS
//!       flags and the final content of the reference applying 1..=N exactly once.

use std::path::Path;
use std::process::Command as Proc;
use std::process::Stdio;
use std::sync::Arc;

use bytes::Bytes;
use d_engine_core::ApplyEntry;
use d_engine_core::Command;
use d_engine_core::StateMachine;
use serde_json::Value;
use serde_json::json;

use super::open_file_sm;
use super::open_rocks_sm;
use crate::model::KvRef;
use crate::model::show_cmd;
use crate::util::Args;
use crate::util::Rng;
use crate::util::ShardReport;
use crate::util::fnv64;
use crate::util::show_bytes;

const KEYS: [&[u8]; 3] = [b"ka", b"kb", b"kc"];

/// The script is a pure function of the seed so that parent and child agree on it.
pub fn script(seed: u64) -> (Vec<ApplyEntry>, Vec<usize>) {
    let mut r = Rng::new(seed ^ 0x5C21_97);
    let n = r.range(6, 36) as usize;
    let hot = r.below(KEYS.len() as u64) as usize;
    let mut model = KvRef::default();
    let mut entries = Vec::new();
    for i in 0..n {
        let k = if r.chance(2, 3) { hot } else { r.below(KEYS.len() as u64) as usize };
        let key = Bytes::from_static(KEYS[k]);
        // now and then an empty value (a legal value, distinct from "absent")
        let val = if r.chance(1, 9) { Bytes::new() } else { Bytes::from(format!("v{i}").into_bytes()) };
        let cur = model.get(KEYS[k]).cloned();
        let cmd = match r.below(10) {
            0..=3 => Command::Insert { key, value: val, ttl_secs: if r.chance(1, 6) { Some(3600) } else { None } },
            4 => Command::Delete { key },
            5..=7 => {
                // CAS that succeeds on the current state: a chain a->b->c is not idempotent
                // under replay (replayed on the newer state the early links fail / later succeed)
                Command::CompareAndSwap { key, expected: cur.map(Bytes::from), value: val }
            }
            8 => {
                // CAS expecting a value the key held earlier (fails now, may succeed on replay
                // over an older state)
                let older = Bytes::from(format!("v{}", r.below(i as u64 + 1)).into_bytes());
                Command::CompareAndSwap { key, expected: Some(older), value: val }
            }
            _ => Command::CompareAndSwap { key, expected: None, value: val },
        };
        model.apply(&cmd);
        entries.push(ApplyEntry { index: i as u64 + 1, term: 1 + (i as u64) / 10, command: cmd });
    }
    // chunk boundaries: sizes 1..6
    let mut cuts = Vec::new();
    let mut at = 0;
    while at < n {
        at = (at + r.range(1, 6) as usize).min(n);
        cuts.push(at);
    }
    (entries, cuts)
}

async fn open(engine: &str, dir: &Path) -> Arc<dyn StateMachine> {
    if engine == "file" { open_file_sm(dir).await } else { open_rocks_sm(dir).await }
}

/// Child entry point: `dverif smcrash-child engine=.. dir=.. seed=.. exit_after=K flush=0|1 reopen_only=0|1`
pub fn child(args: &Args) -> ! {
    let engine = args.str("engine", "file");
    let dir = std::path::PathBuf::from(args.str("dir", "/nonexistent"));
    let seed = args.u64("seed", 1);
    let exit_after = args.u64("exit_after", u64::MAX);
    let flush = args.u64("flush", 0);
    let reopen_only = args.u64("reopen_only", 0) == 1;
    let journal = dir.join("journal.txt");
    // one blocking thread: all tokio::fs writes of the File state machine happen on a single
    // thread, so a per-thread syscall count (strace inject when=N) enumerates them in order
    let rt = tokio::runtime::Builder::new_current_thread()
        .max_blocking_threads(1)
        .enable_all()
        .build()
        .expect("rt");
    rt.block_on(async {
        let sm = open(&engine, &dir.join("sm")).await;
        if reopen_only {
            unsafe { libc::_exit(0) };
        }
        let (entries, cuts) = script(seed);
        // resume=1: a restarted node - continue from the applied index the state machine
        // reports (what the Raft layer does), in the same chunking
        let resume_from = if args.u64("resume", 0) == 1 { sm.last_applied().index as usize } else { 0 };
        let mut start = resume_from.min(entries.len());
        let mut done_chunks = 0u64;
        for (_k, end) in cuts.iter().enumerate() {
            if *end <= start {
                continue;
            }
            let k = done_chunks as usize;
            done_chunks += 1;
            let chunk = &entries[start..*end];
            let _ = std::fs::OpenOptions::new().create(true).append(true).open(&journal).map(|mut f| {
                use std::io::Write;
                let _ = writeln!(f, "B {}", chunk.last().map(|e| e.index).unwrap_or(0));
            });
            let r = sm.apply_chunk(chunk).await;
            if r.is_err() {
                unsafe { libc::_exit(3) };
            }
            let _ = std::fs::OpenOptions::new().create(true).append(true).open(&journal).map(|mut f| {
                use std::io::Write;
                let _ = writeln!(f, "A {}", chunk.last().map(|e| e.index).unwrap_or(0));
            });
            start = *end;
            if k as u64 + 1 == exit_after {
                match flush {
                    1 => {
                        let _ = sm.flush();
                    }
                    2 => {
                        let _ = sm.save_hard_state();
                    }
                    _ => {}
                }
                unsafe { libc::_exit(0) };
            }
        }
        // script finished without crash
        unsafe { libc::_exit(0) };
    })
}

fn content(sm: &Arc<dyn StateMachine>) -> Vec<(Vec<u8>, Vec<u8>)> {
    let mut v = Vec::new();
    for k in KEYS {
        if let Ok(Some(b)) = sm.get(k) {
            v.push((k.to_vec(), b.to_vec()));
        }
    }
    v
}

fn model_content(m: &KvRef) -> Vec<(Vec<u8>, Vec<u8>)> {
    KEYS.iter().filter_map(|k| m.get(k).map(|v| (k.to_vec(), v.clone()))).collect()
}

fn show(c: &[(Vec<u8>, Vec<u8>)]) -> Value {
    json!(c.iter().map(|(k, v)| json!([show_bytes(k), show_bytes(v)])).collect::<Vec<_>>())
}

const SYSCALLS: &str = "write,pwrite64,writev,fsync,fdatasync,rename,renameat,renameat2,ftruncate,unlink,unlinkat";

pub fn run(args: &Args, scratch: &Path) -> ShardReport {
    let mut rep = ShardReport::new("smcrash");
    let seed = args.u64("seed", 1);
    let shard = args.u64("shard", 0);
    let runs = args.u64("runs", 40);
    let budget_s = args.u64("budget_s", 600);
    let me = std::env::current_exe().expect("exe");
    let have_strace = Proc::new("strace").arg("-V").stdout(Stdio::null()).stderr(Stdio::null()).status().map(|s| s.success()).unwrap_or(false);
    if !have_strace {
        rep.notes.push("strace not available: syscall-boundary crash points skipped".into());
    }
    let rt = super::rt();
    let mut seeder = Rng::new(seed.wrapping_mul(2_654_435_761) ^ shard.wrapping_mul(977));
    let t0 = std::time::Instant::now();
    // adaptive upper bound for the syscall counter per engine
    let mut sys_hi: [u64; 2] = [60, 60];
    for run_no in 0..runs {
        if t0.elapsed().as_secs() >= budget_s {
            rep.notes.push(format!("time budget reached after {run_no} runs"));
            break;
        }
        let s = seeder.next() >> 1;
        let mut r = Rng::new(s);
        let ei = r.below(2) as usize;
        let engine = ["file", "rocksdb"][ei];
        let (entries, cuts) = script(s);
        let mode = match r.below(10) {
            0..=2 => "exit",
            3 | 4 => "twice",
            _ if have_strace => "sys",
            _ => "exit",
        };
        let dir = scratch.join(format!("c15-{run_no}"));
        let _ = std::fs::remove_dir_all(&dir);
        std::fs::create_dir_all(&dir).unwrap();
        let exit_after = r.range(1, cuts.len() as u64);
        let flush = r.below(3);
        let mut cmd;
        let mut crash_desc = json!({"mode": mode});
        match mode {
            "sys" => {
                let n = r.range(1, sys_hi[ei]);
                crash_desc = json!({"mode": "sys", "kill_at_write_class_syscall": n});
                cmd = Proc::new("strace");
                cmd.args(["-f", "-qq", "-o", "/dev/null", "-e", &format!("trace={SYSCALLS}"), "-e", &format!("inject={SYSCALLS}:signal=KILL:when={n}")]);
                cmd.arg(&me);
                cmd.args(["smcrash-child", &format!("engine={engine}"), &format!("dir={}", dir.display()), &format!("seed={s}")]);
            }
            _ => {
                crash_desc = json!({"mode": mode, "exit_after_chunk": exit_after, "then": match flush { 1 => "flush", 2 => "save_hard_state", _ => "nothing" }});
                cmd = Proc::new(&me);
                cmd.args(["smcrash-child", &format!("engine={engine}"), &format!("dir={}", dir.display()), &format!("seed={s}"), &format!("exit_after={exit_after}"), &format!("flush={flush}")]);
            }
        }
        let st = cmd.stdout(Stdio::null()).stderr(Stdio::null()).status();
        let Ok(st) = st else {
            rep.inconclusive.push("could not spawn child".into());
            continue;
        };
        use std::os::unix::process::ExitStatusExt;
        let killed = st.signal().is_some() || st.code() == Some(137);
        if mode == "sys" {
            if killed {
                rep.count("sys_kills", 1);
            } else {
                // N was beyond the number of such syscalls: shrink the range
                sys_hi[ei] = (sys_hi[ei] * 3 / 4).max(8);
                rep.count("sys_no_kill", 1);
            }
            if killed && r.chance(1, 4) {
                sys_hi[ei] = (sys_hi[ei] + 10).min(400);
            }
        }
        if st.code() == Some(3) {
            rep.inconclusive.push(format!("child apply error seed {s}"));
            continue;
        }
        if mode == "twice" {
            // second incarnation: reopen, either crash right away or apply 1-2 more chunks from
            // the reported applied index and crash again (no graceful stop in between)
            let more = r.below(3);
            let mut a = vec!["smcrash-child".to_string(), format!("engine={engine}"), format!("dir={}", dir.display()), format!("seed={s}")];
            if more == 0 {
                a.push("reopen_only=1".into());
            } else {
                a.push("resume=1".into());
                a.push(format!("exit_after={more}"));
            }
            crash_desc["second_incarnation"] = if more == 0 { json!("reopen then crash") } else { json!(format!("reopen, apply {more} more chunk(s), crash")) };
            let _ = Proc::new(&me).args(&a).stdout(Stdio::null()).stderr(Stdio::null()).status();
        }
        let journal = std::fs::read_to_string(dir.join("journal.txt")).unwrap_or_default();
        let begun = journal.lines().filter(|l| l.starts_with("B ")).filter_map(|l| l[2..].parse::<u64>().ok()).max().unwrap_or(0);
        let acked = journal.lines().filter(|l| l.starts_with("A ")).filter_map(|l| l[2..].parse::<u64>().ok()).max().unwrap_or(0);
        let in_batch = begun > acked;
        if in_batch {
            rep.count("crashes_inside_a_batch", 1);
        } else {
            rep.count("crashes_between_batches", 1);
        }

        // ---- reopen + oracle ----
        let n_total = entries.len() as u64;
        let scenario = json!({"seed": s, "engine": engine, "crash": crash_desc, "entries": n_total, "chunk_ends": cuts, "begun_upto": begun, "acked_upto": acked});
        let outcome: Result<Vec<(String, Value)>, String> = rt.block_on(async {
            let mut bad: Vec<(String, Value)> = Vec::new();
            let sm = match super::try_open_sm(engine, &dir.join("sm")).await {
                Ok(sm) => sm,
                Err(e) => {
                    bad.push((format!("reopen-after-crash-failed[{engine}]"), json!({"error": e})));
                    return Ok(bad);
                }
            };
            let l = sm.last_applied().index;
            if l > begun {
                bad.push((format!("reported-applied-index-beyond-anything-applied[{engine}]"), json!({"reported": l, "begun_upto": begun})));
                return Ok(bad);
            }
            let mut model = KvRef::default();
            let mut flags_ref = Vec::new();
            for e in entries.iter().filter(|e| e.index <= l) {
                flags_ref.push(model.apply(&e.command));
            }
            let got = content(&sm);
            let exp = model_content(&model);
            if got != exp {
                // classify: does the content equal the reference at some later index?
                let mut m2 = KvRef::default();
                let mut equals_at = None;
                for e in &entries {
                    m2.apply(&e.command);
                    if e.index > l && model_content(&m2) == got {
                        equals_at = Some(e.index);
                        break;
                    }
                }
                let kind = if equals_at.is_some() { "data-ahead-of-reported-applied-index" } else { "data-matches-no-applied-prefix" };
                bad.push((format!("{kind}[{engine}]"), json!({"reported_last_applied": l, "content": show(&got), "reference_at_reported_index": show(&exp), "content_equals_reference_at_index": equals_at})));
            }
            // re-apply what the Raft layer would: L'+1..=N
            let rest: Vec<ApplyEntry> = entries.iter().filter(|e| e.index > l).cloned().collect();
            let mut full = KvRef::default();
            let mut full_flags = Vec::new();
            for e in &entries {
                full_flags.push(full.apply(&e.command));
            }
            if !rest.is_empty() {
                match sm.apply_chunk(&rest).await {
                    Ok(rs) => {
                        let got_flags: Vec<bool> = rs.iter().map(|x| x.succeeded).collect();
                        let exp_flags: Vec<bool> = full_flags[l as usize..].to_vec();
                        // flags of put/delete are always true; compare CAS flags
                        let mut diff = None;
                        for (i, e) in rest.iter().enumerate() {
                            if matches!(e.command, Command::CompareAndSwap { .. }) && got_flags.get(i) != exp_flags.get(i) {
                                diff = Some((e.index, got_flags.get(i).cloned(), exp_flags[i], show_cmd(&e.command)));
                                break;
                            }
                        }
                        if let Some((idx, g, x, c)) = diff {
                            bad.push((format!("replay-changes-cas-outcome[{engine}]"), json!({"index": idx, "cmd": c, "replayed_outcome": g, "exactly_once_outcome": x, "reported_last_applied": l})));
                        }
                    }
                    Err(e) => return Err(format!("re-apply failed: {e:?}")),
                }
            }
            let fin = content(&sm);
            let fexp = model_content(&full);
            if fin != fexp {
                bad.push((format!("state-after-replay-differs-from-exactly-once-state[{engine}]"), json!({"reported_last_applied": l, "final": show(&fin), "expected": show(&fexp)})));
            }
            let _ = sm.stop();
            sm.close_storage();
            Ok(bad)
        });
        let sig = fnv64(format!("{engine}{mode}{in_batch}{}{}", begun, cuts.len()).as_bytes());
        match outcome {
            Err(e) => rep.inconclusive.push(format!("seed {s}: {e}")),
            Ok(bad) => {
                rep.eval(begun > 0, sig);
                rep.count(&format!("runs_{engine}"), 1);
                rep.count(&format!("mode_{mode}"), 1);
                if rep.samples.len() < 3 {
                    rep.sample(scenario.clone());
                }
                for (sg, d) in bad {
                    rep.violation("C15", &sg, json!({"detail": d, "script": entries.iter().map(|e| show_cmd(&e.command)).collect::<Vec<_>>()}), scenario.clone());
                }
            }
        }
        let _ = std::fs::remove_dir_all(&dir);
    }
    rep
}
