//! In-memory model storage engine with a page-cache / durable split.
//!
//! `persist_entries`, `truncate`, `purge`, `reset` hit the "page cache"; `flush()` copies the page
//! cache to the durable image. A *process crash* image is the page cache, a *power loss* image
//! is the durable one. Every mutation is journaled so crash points can be enumerated.

use std::collections::BTreeMap;
use std::ops::RangeInclusive;
use std::sync::Arc;
use std::sync::Mutex;

use async_trait::async_trait;
use d_engine_core::Error;
use d_engine_core::HardState;
use d_engine_core::LogStore;
use d_engine_core::MetaStore;
use d_engine_core::StorageEngine;
use d_engine_proto::common::Entry;
use d_engine_proto::common::LogId;

#[derive(Clone, Debug, Default, PartialEq)]
pub struct Image {
    pub entries: BTreeMap<u64, Entry>,
    pub purge: Option<LogId>,
}

#[derive(Clone, Debug)]
pub enum StoreOp {
    Persist { first: u64, last: u64 },
    Truncate { from: u64 },
    Replace { from: u64, first: u64, last: u64 },
    Purge { upto: u64 },
    Reset,
    Flush,
}

#[derive(Default)]
pub struct MemInner {
    pub page: Image,
    pub durable: Image,
    pub journal: Vec<StoreOp>,
    /// snapshots of (page, durable) after each journal step
    pub history: Vec<(Image, Image)>,
    pub keep_history: bool,
}

#[derive(Clone, Default)]
pub struct MemLogStore(pub Arc<Mutex<MemInner>>);

impl MemLogStore {
    fn step(&self, op: StoreOp, f: impl FnOnce(&mut MemInner)) {
        let mut g = self.0.lock().unwrap();
        f(&mut g);
        g.journal.push(op);
        if g.keep_history {
            let snap = (g.page.clone(), g.durable.clone());
            g.history.push(snap);
        }
    }
}

#[async_trait]
impl LogStore for MemLogStore {
    async fn persist_entries(&self, entries: Vec<Entry>) -> Result<(), Error> {
        if entries.is_empty() {
            return Ok(());
        }
        let first = entries.first().unwrap().index;
        let last = entries.last().unwrap().index;
        self.step(StoreOp::Persist { first, last }, |g| {
            for e in entries {
                g.page.entries.insert(e.index, e);
            }
        });
        Ok(())
    }
    async fn entry(&self, index: u64) -> Result<Option<Entry>, Error> {
        Ok(self.0.lock().unwrap().page.entries.get(&index).cloned())
    }
    fn get_entries(&self, range: RangeInclusive<u64>) -> Result<Vec<Entry>, Error> {
        Ok(self.0.lock().unwrap().page.entries.range(range).map(|(_, e)| e.clone()).collect())
    }
    async fn purge(&self, cutoff_index: LogId) -> Result<(), Error> {
        self.step(StoreOp::Purge { upto: cutoff_index.index }, |g| {
            g.page.entries = g.page.entries.split_off(&(cutoff_index.index + 1));
            g.page.purge = Some(cutoff_index);
        });
        Ok(())
    }
    async fn truncate(&self, from_index: u64) -> Result<(), Error> {
        self.step(StoreOp::Truncate { from: from_index }, |g| {
            g.page.entries.split_off(&from_index);
        });
        Ok(())
    }
    async fn replace_range(&self, from_index: u64, new_entries: Vec<Entry>) -> Result<(), Error> {
        let first = new_entries.first().map(|e| e.index).unwrap_or(0);
        let last = new_entries.last().map(|e| e.index).unwrap_or(0);
        self.step(StoreOp::Replace { from: from_index, first, last }, |g| {
            g.page.entries.split_off(&from_index);
            for e in new_entries {
                g.page.entries.insert(e.index, e);
            }
        });
        Ok(())
    }
    fn is_write_durable(&self) -> bool {
        false
    }
    fn flush(&self) -> Result<(), Error> {
        self.step(StoreOp::Flush, |g| {
            g.durable = g.page.clone();
        });
        Ok(())
    }
    async fn flush_async(&self) -> Result<(), Error> {
        self.flush()
    }
    async fn reset(&self) -> Result<(), Error> {
        self.step(StoreOp::Reset, |g| {
            g.page.entries.clear();
        });
        Ok(())
    }
    fn last_index(&self) -> u64 {
        self.0.lock().unwrap().page.entries.keys().next_back().cloned().unwrap_or(0)
    }
    fn load_purge_boundary(&self) -> Result<Option<LogId>, Error> {
        Ok(self.0.lock().unwrap().page.purge)
    }
}

#[derive(Clone, Default)]
pub struct MemMetaStore(pub Arc<Mutex<Option<HardState>>>);

#[async_trait]
impl MetaStore for MemMetaStore {
    fn save_hard_state(&self, state: &HardState) -> Result<(), Error> {
        *self.0.lock().unwrap() = Some(*state);
        Ok(())
    }
    fn load_hard_state(&self) -> Result<Option<HardState>, Error> {
        Ok(*self.0.lock().unwrap())
    }
}

#[derive(Clone, Default)]
pub struct MemEngine {
    pub log: Arc<MemLogStore>,
    pub meta: Arc<MemMetaStore>,
}

impl std::fmt::Debug for MemEngine {
    fn fmt(&self, f: &mut std::fmt::Formatter<'_>) -> std::fmt::Result {
        f.write_str("MemEngine")
    }
}

impl MemEngine {
    pub fn new() -> Self {
        Self::default()
    }
    /// a fresh engine whose page cache == durable == `img` (what a restart finds)
    pub fn from_image(img: &Image) -> Self {
        let e = MemEngine::new();
        {
            let mut g = e.log.0.lock().unwrap();
            g.page = img.clone();
            g.durable = img.clone();
        }
        e
    }
}

impl StorageEngine for MemEngine {
    type LogStore = MemLogStore;
    type MetaStore = MemMetaStore;
    fn log_store(&self) -> Arc<Self::LogStore> {
        self.log.clone()
    }
    fn meta_store(&self) -> Arc<Self::MetaStore> {
        self.meta.clone()
    }
}
