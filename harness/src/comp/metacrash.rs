//! C21: saved term and vote are never lost or corrupted by a crash.
//!
//! A child process opens the real File or RocksDB storage engine and saves a seeded sequence of
//! hard states (terms strictly increasing, votes varying, a few saves repeated) through
//! `MetaStore::save_hard_state`, journaling "B k" before and "A k" after each save. It is killed
//!   * `sys`  — by SIGKILL on entry to its N-th write-class syscall (strace inject): inside a
//!              save — after the file was truncated and before the new content is written,
//!              between partial writes, before/after flush — or between saves;
//!   * `exit` — by `_exit` right after the k-th save returned.
//! The parent reopens the engine in a fresh instance and checks `load_hard_state()`:
//!   * it must decode to one of the saved states (never missing once a save was acknowledged or
//!     a previous value existed, never undecodable);
//!   * it must be the last acknowledged state or the one whose save was in progress.

use std::path::Path;
use std::process::Command as Proc;
use std::process::Stdio;

use d_engine_core::HardState;
use d_engine_core::MetaStore;
use d_engine_core::StorageEngine;
use d_engine_proto::server::election::VotedFor;
use d_engine_server::FileStorageEngine;
use d_engine_server::RocksDBStorageEngine;
use serde_json::Value;
use serde_json::json;

use crate::util::Args;
use crate::util::Rng;
use crate::util::ShardReport;
use crate::util::fnv64;

pub fn states(seed: u64) -> Vec<HardState> {
    let mut r = Rng::new(seed ^ 0xC21);
    let n = r.range(2, 9);
    let mut term = r.range(1, 5);
    let mut v = Vec::new();
    for _ in 0..n {
        let voted_for = match r.below(3) {
            0 => None,
            _ => Some(VotedFor { voted_for_id: r.range(1, 5) as u32, voted_for_term: term, committed: r.chance(1, 2) }),
        };
        v.push(HardState { current_term: term, voted_for });
        if r.chance(3, 4) {
            term += r.range(1, 3);
        }
    }
    v
}

fn show(h: &Option<HardState>) -> Value {
    match h {
        None => json!(null),
        Some(h) => json!({"term": h.current_term, "voted_for": h.voted_for.map(|v| json!([v.voted_for_id, v.voted_for_term, v.committed]))}),
    }
}

fn same(a: &HardState, b: &HardState) -> bool {
    a.current_term == b.current_term && a.voted_for == b.voted_for
}

enum Eng {
    File(FileStorageEngine),
    Rocks(RocksDBStorageEngine),
}

fn open(engine: &str, dir: &Path) -> Result<Eng, String> {
    if engine == "file" {
        FileStorageEngine::new(dir.join("file")).map(Eng::File).map_err(|e| format!("{e:?}"))
    } else {
        RocksDBStorageEngine::new(dir.join("rocks")).map(Eng::Rocks).map_err(|e| format!("{e:?}"))
    }
}

impl Eng {
    fn save(&self, h: &HardState) -> Result<(), String> {
        match self {
            Eng::File(e) => e.meta_store().save_hard_state(h).map_err(|e| format!("{e:?}")),
            Eng::Rocks(e) => e.meta_store().save_hard_state(h).map_err(|e| format!("{e:?}")),
        }
    }
    fn load(&self) -> Result<Option<HardState>, String> {
        match self {
            Eng::File(e) => e.meta_store().load_hard_state().map_err(|e| format!("{e:?}")),
            Eng::Rocks(e) => e.meta_store().load_hard_state().map_err(|e| format!("{e:?}")),
        }
    }
}

/// `dverif metacrash-child engine=.. dir=.. seed=.. exit_after=K`
pub fn child(args: &Args) -> ! {
    let engine = args.str("engine", "file");
    let dir = std::path::PathBuf::from(args.str("dir", "/nonexistent"));
    let seed = args.u64("seed", 1);
    let exit_after = args.u64("exit_after", u64::MAX);
    let journal = dir.join("journal.txt");
    let eng = match open(&engine, &dir) {
        Ok(e) => e,
        Err(_) => unsafe { libc::_exit(4) },
    };
    let note = |s: String| {
        use std::io::Write;
        if let Ok(mut f) = std::fs::OpenOptions::new().create(true).append(true).open(&journal) {
            let _ = writeln!(f, "{s}");
        }
    };
    for (k, h) in states(seed).iter().enumerate() {
        note(format!("B {k}"));
        if eng.save(h).is_err() {
            unsafe { libc::_exit(3) };
        }
        note(format!("A {k}"));
        if k as u64 + 1 == exit_after {
            unsafe { libc::_exit(0) };
        }
    }
    unsafe { libc::_exit(0) }
}

const SYSCALLS: &str = "write,pwrite64,writev,fsync,fdatasync,rename,renameat,renameat2,ftruncate,unlink,unlinkat";

pub fn run(args: &Args, scratch: &Path) -> ShardReport {
    let mut rep = ShardReport::new("metacrash");
    let seed = args.u64("seed", 1);
    let shard = args.u64("shard", 0);
    let runs = args.u64("runs", 40);
    let budget_s = args.u64("budget_s", 600);
    let me = std::env::current_exe().expect("exe");
    let have_strace = Proc::new("strace").arg("-V").stdout(Stdio::null()).stderr(Stdio::null()).status().map(|s| s.success()).unwrap_or(false);
    if !have_strace {
        rep.notes.push("strace not available: syscall-boundary crash points skipped".into());
    }
    let mut seeder = Rng::new(seed.wrapping_mul(40_503) ^ shard.wrapping_mul(7_919));
    let t0 = std::time::Instant::now();
    let mut sys_hi: [u64; 2] = [40, 60];
    for run_no in 0..runs {
        if t0.elapsed().as_secs() >= budget_s {
            rep.notes.push(format!("time budget reached after {run_no} runs"));
            break;
        }
        let s = seeder.next() >> 1;
        let mut r = Rng::new(s);
        let ei = r.below(2) as usize;
        let engine = ["file", "rocksdb"][ei];
        let sts = states(s);
        let dir = scratch.join(format!("c21-{run_no}"));
        let _ = std::fs::remove_dir_all(&dir);
        std::fs::create_dir_all(&dir).unwrap();
        let use_sys = have_strace && r.chance(3, 4);
        let exit_after = r.range(1, sts.len() as u64);
        let mut cmd;
        let crash_desc;
        if use_sys {
            let n = r.range(1, sys_hi[ei]);
            crash_desc = json!({"mode": "sys", "kill_at_write_class_syscall": n});
            cmd = Proc::new("strace");
            cmd.args(["-f", "-qq", "-o", "/dev/null", "-e", &format!("trace={SYSCALLS}"), "-e", &format!("inject={SYSCALLS}:signal=KILL:when={n}")]);
            cmd.arg(&me);
            cmd.args(["metacrash-child", &format!("engine={engine}"), &format!("dir={}", dir.display()), &format!("seed={s}")]);
        } else {
            crash_desc = json!({"mode": "exit", "exit_after_save": exit_after});
            cmd = Proc::new(&me);
            cmd.args(["metacrash-child", &format!("engine={engine}"), &format!("dir={}", dir.display()), &format!("seed={s}"), &format!("exit_after={exit_after}")]);
        }
        let Ok(st) = cmd.stdout(Stdio::null()).stderr(Stdio::null()).status() else {
            rep.inconclusive.push("could not spawn child".into());
            continue;
        };
        use std::os::unix::process::ExitStatusExt;
        let killed = st.signal().is_some() || st.code() == Some(137);
        if use_sys {
            if killed {
                rep.count("sys_kills", 1);
                if r.chance(1, 4) {
                    sys_hi[ei] = (sys_hi[ei] + 8).min(300);
                }
            } else {
                sys_hi[ei] = (sys_hi[ei] * 3 / 4).max(6);
                rep.count("sys_no_kill", 1);
            }
        }
        if matches!(st.code(), Some(3) | Some(4)) {
            rep.inconclusive.push(format!("child error {:?} seed {s}", st.code()));
            continue;
        }
        let journal = std::fs::read_to_string(dir.join("journal.txt")).unwrap_or_default();
        let begun: Option<usize> = journal.lines().filter(|l| l.starts_with("B ")).filter_map(|l| l[2..].parse().ok()).max();
        let acked: Option<usize> = journal.lines().filter(|l| l.starts_with("A ")).filter_map(|l| l[2..].parse().ok()).max();
        let in_save = begun.is_some() && begun != acked;
        rep.count(if in_save { "crashes_inside_a_save" } else { "crashes_between_saves" }, 1);
        let scenario = json!({"seed": s, "engine": engine, "crash": crash_desc, "states": sts.iter().map(|h| show(&Some(*h))).collect::<Vec<_>>(), "begun": begun, "acked": acked});
        let mut bad: Vec<(String, Value)> = Vec::new();
        match open(engine, &dir) {
            Err(e) => bad.push((format!("reopen-after-crash-failed[{engine}]"), json!({"error": e}))),
            Ok(eng) => match eng.load() {
                Err(e) => bad.push((format!("stored-hard-state-undecodable[{engine}]"), json!({"error": e}))),
                Ok(loaded) => {
                    // allowed: the last acknowledged state, or the one in progress
                    let mut allowed: Vec<Option<HardState>> = Vec::new();
                    match acked {
                        Some(a) => allowed.push(Some(sts[a])),
                        None => allowed.push(None),
                    }
                    if let Some(b) = begun
                        && Some(b) != acked
                    {
                        allowed.push(Some(sts[b]));
                    }
                    let ok = allowed.iter().any(|a| match (a, &loaded) {
                        (None, None) => true,
                        (Some(x), Some(y)) => same(x, y),
                        _ => false,
                    });
                    if !ok {
                        let sig = match (&loaded, acked) {
                            (None, Some(_)) => "acknowledged-hard-state-missing-after-crash",
                            (None, None) => "hard-state-missing",
                            (Some(l), _) if sts.iter().any(|x| same(x, l)) => "older-hard-state-after-crash",
                            _ => "hard-state-is-none-of-the-saved-values",
                        };
                        bad.push((format!("{sig}[{engine}]"), json!({"loaded": show(&loaded), "allowed": allowed.iter().map(show).collect::<Vec<_>>(), "crashed_inside_a_save": in_save})));
                    }
                }
            },
        }
        rep.eval(begun.is_some(), fnv64(format!("{engine}{use_sys}{in_save}{:?}{}", begun, sts.len()).as_bytes()));
        rep.count(&format!("runs_{engine}"), 1);
        if rep.samples.len() < 3 {
            rep.sample(scenario.clone());
        }
        for (sg, d) in bad {
            rep.violation("C21", &sg, json!({"detail": d}), scenario.clone());
        }
        let _ = std::fs::remove_dir_all(&dir);
    }
    rep
}
