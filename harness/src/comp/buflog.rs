//! C19: BufferedRaftLog ≡ plain indexed log (reference model), and
//! C18 (model store part): durable, gap-free prefix after a crash at quiescent points, for the
//! process-crash (page cache) and power-loss (durable) images of the in-memory model store.

use std::collections::BTreeMap;
use std::path::Path;
use std::sync::Arc;
use std::time::Duration;

use bytes::Bytes;
use d_engine_core::BufferedRaftLog;
use d_engine_core::PersistenceConfig;
use d_engine_core::RaftLog;
use d_engine_proto::common::Entry;
use d_engine_proto::common::EntryPayload;
use d_engine_proto::common::LogId;
use d_engine_proto::common::entry_payload::Payload;
use d_engine_server::FileStateMachine;
use serde_json::Value;
use serde_json::json;

use super::memstore::Image;
use super::memstore::MemEngine;
use crate::sim::node::SimTC;
use crate::util::Args;
use crate::util::Rng;
use crate::util::ShardReport;
use crate::util::fnv64;

type TC = SimTC<MemEngine, FileStateMachine>;
type Log = BufferedRaftLog<TC>;

fn mk_entry(index: u64, term: u64, uid: u64) -> Entry {
    Entry {
        index,
        term,
        payload: Some(EntryPayload {
            payload: Some(Payload::Command(Bytes::from(format!("u{uid}").into_bytes()))),
        }),
    }
}

fn uid_of(e: &Entry) -> u64 {
    match e.payload.as_ref().and_then(|p| p.payload.as_ref()) {
        Some(Payload::Command(b)) => fnv64(b),
        _ => 0,
    }
}

/// Plain in-memory log with the Raft append / conflict-truncate / purge rules.
#[derive(Clone, Debug, Default)]
pub struct PlainLog {
    pub entries: BTreeMap<u64, Entry>,
    pub purge: Option<LogId>,
}

impl PlainLog {
    pub fn last_index(&self) -> u64 {
        self.entries.keys().next_back().cloned().unwrap_or(0)
    }
    pub fn first_index(&self) -> u64 {
        self.entries.keys().next().cloned().unwrap_or(0)
    }
    pub fn last_log_id(&self) -> Option<LogId> {
        match self.entries.values().next_back() {
            Some(e) => Some(LogId { term: e.term, index: e.index }),
            None => self.purge.filter(|p| p.index > 0),
        }
    }
    pub fn entry_term(&self, i: u64) -> Option<u64> {
        if let Some(e) = self.entries.get(&i) {
            return Some(e.term);
        }
        match self.purge {
            Some(p) if p.index > 0 && p.index == i => Some(p.term),
            _ => None,
        }
    }
    pub fn first_index_for_term(&self, t: u64) -> Option<u64> {
        self.entries.values().find(|e| e.term == t).map(|e| e.index)
    }
    pub fn last_index_for_term(&self, t: u64) -> Option<u64> {
        self.entries.values().rev().find(|e| e.term == t).map(|e| e.index)
    }
    pub fn range(&self, a: u64, b: u64) -> Vec<Entry> {
        if a > b {
            return vec![];
        }
        self.entries.range(a..=b).map(|(_, e)| e.clone()).collect()
    }
    pub fn append(&mut self, es: &[Entry]) {
        for e in es {
            self.entries.insert(e.index, e.clone());
        }
    }
    pub fn follower_append(&mut self, prev_i: u64, prev_t: u64, new: &[Entry]) -> Option<LogId> {
        if prev_i == 0 && prev_t == 0 {
            // documented rule of this log: "prev_log_index == 0 means the leader wants the
            // follower to start from scratch: reset and replace". (The replication handler is
            // responsible for not sending such a request when a common prefix exists.)
            self.entries.clear();
            self.append(new);
            return new.last().map(|e| LogId { term: e.term, index: e.index });
        } else if self.entry_term(prev_i) != Some(prev_t) {
            return self.last_log_id();
        }
        for (k, e) in new.iter().enumerate() {
            match self.entries.get(&e.index) {
                Some(mine) if mine.term == e.term => continue,
                Some(_) => {
                    // conflict: delete it and all that follow, then append the rest
                    self.entries.split_off(&e.index);
                    self.append(&new[k..]);
                    break;
                }
                None => {
                    self.append(&new[k..]);
                    break;
                }
            }
        }
        new.last().map(|e| LogId { term: e.term, index: e.index })
    }
    pub fn purge_to(&mut self, id: LogId) {
        self.entries = self.entries.split_off(&(id.index + 1));
        self.purge = Some(id);
    }
    pub fn reset(&mut self) {
        self.entries.clear();
    }
}

#[derive(Clone, Debug)]
enum Op {
    LeaderAppend { n: u64 },
    BumpTerm,
    FollowerAppend { prev_i: u64, prev_t: u64, entries: Vec<Entry> },
    Purge { upto: u64 },
    Reset,
    Flush,
}

fn show_op(op: &Op) -> Value {
    match op {
        Op::LeaderAppend { n } => json!({"leader_append": n}),
        Op::BumpTerm => json!("bump_term"),
        Op::FollowerAppend { prev_i, prev_t, entries } => {
            json!({"follower_append": {"prev": [prev_i, prev_t], "entries": entries.iter().map(|e| json!([e.index, e.term])).collect::<Vec<_>>()}})
        }
        Op::Purge { upto } => json!({"purge": upto}),
        Op::Reset => json!("reset"),
        Op::Flush => json!("flush"),
    }
}

struct Gen {
    r: Rng,
    term: u64,
    uid: u64,
}

impl Gen {
    fn next_op(&mut self, m: &PlainLog, with_reset: bool) -> Op {
        let last = m.last_index().max(m.purge.map(|p| p.index).unwrap_or(0));
        let x = self.r.below(100);
        if x < 30 {
            return Op::LeaderAppend { n: self.r.range(1, 4) };
        }
        if x < 38 {
            return Op::BumpTerm;
        }
        if x < 75 {
            // follower-style append
            let boundary = m.purge.map(|p| p.index).unwrap_or(0);
            let have_prev: Vec<u64> = (boundary..=m.last_index().max(boundary)).filter(|i| *i == 0 || m.entry_term(*i).is_some()).collect();
            let prev_i = if m.entries.is_empty() && boundary == 0 { 0 } else if self.r.chance(1, 10) { 0 } else { *self.r.pick(&have_prev) };
            let true_t = if prev_i == 0 { 0 } else { m.entry_term(prev_i).unwrap_or(0) };
            let prev_t = if self.r.chance(1, 12) && prev_i != 0 { true_t + 1 } else { true_t };
            // overlap: copy some existing entries after prev
            let mut entries = Vec::new();
            let mut i = prev_i + 1;
            let overlap = self.r.below(4);
            for _ in 0..overlap {
                if let Some(e) = m.entries.get(&i) {
                    entries.push(e.clone());
                    i += 1;
                } else {
                    break;
                }
            }
            // then new entries: either continuing (no conflict) or diverging with a higher term
            let n_new = self.r.below(4);
            if n_new > 0 {
                let log_max_term = m.entries.values().map(|e| e.term).max().unwrap_or(0).max(m.purge.map(|p| p.term).unwrap_or(0)).max(1);
                let diverge = m.entries.contains_key(&i);
                let t = if diverge {
                    // new leader's term is above anything in the follower's log
                    log_max_term + 1
                } else {
                    // continue: same or higher term than the tail
                    log_max_term + self.r.below(2)
                };
                self.term = self.term.max(t);
                for _ in 0..n_new {
                    self.uid += 1;
                    entries.push(mk_entry(i, t, self.uid));
                    i += 1;
                }
            }
            if prev_i == 0 && m.purge.is_some_and(|p| p.index > 0) {
                // prev 0 against a compacted log is outside the Raft-legal space explored here
                return Op::Flush;
            }
            if entries.is_empty() {
                // heartbeats never reach filter_out_conflicts_and_append
                return Op::Flush;
            }
            return Op::FollowerAppend { prev_i, prev_t, entries };
        }
        if x < 85 && m.last_index() > 0 {
            let lo = m.first_index();
            let upto = self.r.range(lo, m.last_index());
            return Op::Purge { upto };
        }
        if x < 88 && with_reset && last > 0 {
            return Op::Reset;
        }
        Op::Flush
    }
}

fn compare(log: &Log, m: &PlainLog) -> Option<Value> {
    let a = log.last_log_id();
    let b = m.last_log_id();
    if a != b {
        return Some(json!({"query": "last_log_id", "got": format!("{a:?}"), "expected": format!("{b:?}")}));
    }
    if log.last_entry_id() != m.last_index() {
        return Some(json!({"query": "last_entry_id", "got": log.last_entry_id(), "expected": m.last_index()}));
    }
    if log.first_entry_id() != m.first_index() {
        return Some(json!({"query": "first_entry_id", "got": log.first_entry_id(), "expected": m.first_index()}));
    }
    let hi = m.last_index().max(log.last_entry_id()) + 2;
    for i in 0..=hi {
        let a = log.entry_term(i);
        let b = m.entry_term(i);
        if a != b {
            return Some(json!({"query": "entry_term", "index": i, "got": a, "expected": b}));
        }
    }
    let max_t = m.entries.values().map(|e| e.term).max().unwrap_or(0) + 1;
    for t in 0..=max_t {
        let a = log.first_index_for_term(t);
        let b = m.first_index_for_term(t);
        if a != b {
            return Some(json!({"query": "first_index_for_term", "term": t, "got": a, "expected": b}));
        }
        let a = log.last_index_for_term(t);
        let b = m.last_index_for_term(t);
        if a != b {
            return Some(json!({"query": "last_index_for_term", "term": t, "got": a, "expected": b}));
        }
    }
    let a: Vec<(u64, u64, u64)> = log.get_entries_range(0..=hi).unwrap_or_default().iter().map(|e| (e.index, e.term, uid_of(e))).collect();
    let b: Vec<(u64, u64, u64)> = m.range(0, hi).iter().map(|e| (e.index, e.term, uid_of(e))).collect();
    if a != b {
        return Some(json!({"query": "get_entries_range", "got": a.iter().map(|x| json!([x.0, x.1])).collect::<Vec<_>>(), "expected": b.iter().map(|x| json!([x.0, x.1])).collect::<Vec<_>>()}));
    }
    None
}

/// what a fresh process finds when it reopens `img`
fn reopen(img: &Image) -> (Vec<(u64, u64, u64)>, u64) {
    let eng = Arc::new(MemEngine::from_image(img));
    let (log, _rx) = Log::new(1, PersistenceConfig::default(), eng);
    let last = log.last_entry_id();
    let v = log.get_entries_range(0..=last + 1).unwrap_or_default().iter().map(|e| (e.index, e.term, uid_of(e))).collect();
    (v, last)
}

fn check_image(
    which: &str,
    img: &Image,
    m: &PlainLog,
    reported_durable: u64,
    flush_returned_for: u64,
    ever_replaced: &BTreeMap<u64, Vec<(u64, u64)>>,
) -> Option<(String, Value)> {
    let (ents, _last) = reopen(img);
    // gap-free
    let mut expect = ents.first().map(|e| e.0).unwrap_or(0);
    for e in &ents {
        if e.0 != expect {
            return Some((format!("{which}-gap-after-reopen"), json!({"expected_index": expect, "found": e.0})));
        }
        expect += 1;
    }
    let have: BTreeMap<u64, (u64, u64)> = ents.iter().map(|e| (e.0, (e.1, e.2))).collect();
    // every entry reported durable (and still part of the log) is there with identical content
    let must = reported_durable.max(flush_returned_for);
    for (i, e) in m.entries.iter() {
        if *i > must {
            break;
        }
        match have.get(i) {
            Some((t, u)) if *t == e.term && *u == uid_of(e) => {}
            other => {
                return Some((
                    format!("{which}-durable-entry-missing-or-different"),
                    json!({"index": i, "reported_durable": reported_durable, "flush_covered": flush_returned_for, "expected_term": e.term, "found": other.map(|o| o.0)}),
                ));
            }
        }
    }
    // never brings back an entry that a truncation had replaced
    for (i, (t, u)) in &have {
        if let Some(olds) = ever_replaced.get(i)
            && olds.contains(&(*t, *u))
        {
            let cur = m.entries.get(i).map(|e| (e.term, uid_of(e)));
            if cur != Some((*t, *u)) && which == "process-crash" {
                return Some((format!("{which}-replaced-entry-resurrected"), json!({"index": i, "stale_term": t, "current": cur.map(|c| c.0)})));
            }
        }
    }
    None
}

pub fn run(args: &Args, _scratch: &Path) -> ShardReport {
    let mode_crash = args.str("mode", "equiv") == "crash";
    let mut rep = ShardReport::new(if mode_crash { "buflog-crash" } else { "buflog" });
    let seed = args.u64("seed", 1);
    let shard = args.u64("shard", 0);
    let runs = args.u64("runs", 500);
    let rt = super::rt();
    let mut seeder = Rng::new(seed.wrapping_mul(2654435761) ^ shard.wrapping_mul(97));
    for _ in 0..runs {
        let s = seeder.next();
        let mut g = Gen { r: Rng::new(s), term: 1, uid: 0 };
        let n_ops = g.r.range(5, if mode_crash { 30 } else { 40 });
        let with_reset = g.r.chance(1, 3);
        let eng = Arc::new(MemEngine::new());
        let mut ops_done: Vec<Value> = Vec::new();
        let mut violation: Option<(String, Value)> = None;
        let mut sig: Vec<u8> = Vec::new();
        let mut crash_points = 0u64;
        rt.block_on(async {
            let (log, rx) = Log::new(1, PersistenceConfig::default(), eng.clone());
            let log = log.start(rx, None);
            let mut m = PlainLog::default();
            let mut ever_replaced: BTreeMap<u64, Vec<(u64, u64)>> = BTreeMap::new();
            let mut flush_returned_for = 0u64;
            for _ in 0..n_ops {
                let op = g.next_op(&m, with_reset);
                ops_done.push(show_op(&op));
                let before = m.clone();
                match &op {
                    Op::LeaderAppend { n } => {
                        let range = log.pre_allocate_id_range(*n);
                        let mut es = Vec::new();
                        let lt = m.entries.values().next_back().map(|e| e.term).unwrap_or(0).max(m.purge.map(|p| p.term).unwrap_or(0));
                        let t = g.term.max(lt).max(1);
                        g.term = t;
                        for i in range {
                            g.uid += 1;
                            es.push(mk_entry(i, t, g.uid));
                        }
                        // a leader appends right after its last entry; after purge/reset the
                        // allocator continues from its own counter, keep the model in step
                        let expect_first = m.last_index().max(m.purge.map(|p| p.index).unwrap_or(0)) + 1;
                        if es.first().map(|e| e.index) != Some(expect_first) {
                            // allocator and log disagree about the next index: only legal right
                            // after reset (allocator restarts at 1); skip the op otherwise
                            if !(m.entries.is_empty() && es.first().map(|e| e.index) == Some(1)) {
                                sig.push(9);
                                continue;
                            }
                            if m.purge.is_some_and(|p| p.index > 0) {
                                continue;
                            }
                        }
                        let _ = log.insert_batch(es.clone()).await;
                        m.append(&es);
                        sig.push(1);
                    }
                    Op::BumpTerm => {
                        g.term += 1;
                        sig.push(2);
                    }
                    Op::FollowerAppend { prev_i, prev_t, entries } => {
                        let got = log.filter_out_conflicts_and_append(*prev_i, *prev_t, entries.clone()).await;
                        let exp = if entries.is_empty() {
                            // handle_append_entries never calls it with no entries; model = no-op
                            None
                        } else {
                            m.follower_append(*prev_i, *prev_t, entries)
                        };
                        if !entries.is_empty() {
                            match got {
                                Ok(id) if id == exp => {}
                                other => {
                                    violation = Some(("conflict-aware-append-result-differs".into(), json!({"got": format!("{other:?}"), "expected": format!("{exp:?}")})));
                                }
                            }
                        }
                        sig.push(3);
                    }
                    Op::Purge { upto } => {
                        let t = m.entry_term(*upto).unwrap_or(0);
                        let id = LogId { index: *upto, term: t };
                        let _ = log.purge_logs_up_to(id).await;
                        m.purge_to(id);
                        sig.push(4);
                    }
                    Op::Reset => {
                        let _ = log.reset().await;
                        m.reset();
                        sig.push(5);
                    }
                    Op::Flush => {
                        if log.flush().await.is_ok() {
                            flush_returned_for = flush_returned_for.max(m.last_index());
                        }
                        sig.push(6);
                    }
                }
                // a truncation (conflict or reset) replaces entries: earlier flush() returns no
                // longer vouch for indexes at or above the first replaced / removed index
                if let Some(first_changed) = before
                    .entries
                    .iter()
                    .find(|(i, e)| m.entries.get(i).map(|x| (x.term, uid_of(x))) != Some((e.term, uid_of(e))))
                    .map(|(i, _)| *i)
                {
                    let purged_to = m.purge.map(|p| p.index).unwrap_or(0);
                    if first_changed > purged_to || matches!(op, Op::Reset) {
                        flush_returned_for = flush_returned_for.min(first_changed.saturating_sub(1));
                    }
                }
                if let Op::FollowerAppend { prev_i: 0, prev_t: 0, .. } = &op {
                    flush_returned_for = 0;
                }
                // remember replaced entries (for resurrection check)
                for (i, e) in before.entries.iter() {
                    let now = m.entries.get(i).map(|x| (x.term, uid_of(x)));
                    if now != Some((e.term, uid_of(e))) {
                        ever_replaced.entry(*i).or_default().push((e.term, uid_of(e)));
                    }
                }
                if violation.is_some() {
                    break;
                }
                if !mode_crash {
                    if let Some(d) = compare(&log, &m) {
                        violation = Some((format!("query-{}-differs", d["query"].as_str().unwrap_or("?")), d));
                        break;
                    }
                } else {
                    // let the IO thread make some (random amount of) progress, then "crash"
                    if g.r.chance(1, 2) {
                        tokio::time::sleep(Duration::from_micros(g.r.range(0, 300))).await;
                    }
                    let durable_now = log.durable_index();
                    let (page, durable) = {
                        let gq = eng.log.0.lock().unwrap();
                        (gq.page.clone(), gq.durable.clone())
                    };
                    // a flush that returned earlier only covers entries that still exist
                    let fr = flush_returned_for.min(m.last_index());
                    crash_points += 2;
                    if let Some(v) = check_image("process-crash", &page, &m, durable_now.min(m.last_index()), fr, &ever_replaced) {
                        violation = Some(v);
                        break;
                    }
                    if let Some(mut v) = check_image("power-loss", &durable, &m, durable_now.min(m.last_index()), fr, &ever_replaced) {
                        if v.0 == "power-loss-gap-after-reopen" {
                            // mechanism: the page cache is gap-free right now (checked above), so
                            // the durable image caught a transient hole: an fsync raced with the
                            // Raft thread removing a range from the in-memory index.
                            let kind = match &op {
                                Op::FollowerAppend { .. } => "conflict-truncation",
                                Op::Purge { .. } => "purge",
                                Op::Reset => "reset",
                                _ => "other-op",
                            };
                            v.0 = format!("power-loss-gap-after-reopen:fsync-raced-with-{kind}");
                        }
                        violation = Some(v);
                        break;
                    }
                }
            }
            log.close().await;
        });
        let nontrivial = sig.contains(&3) && (sig.contains(&4) || sig.contains(&1));
        rep.eval(nontrivial, fnv64(&sig) ^ (ops_done.len() as u64));
        rep.count("ops", ops_done.len() as u64);
        rep.count("crash_points", crash_points);
        if rep.samples.len() < 3 && nontrivial {
            rep.sample(json!({"ops": ops_done}));
        }
        if let Some((sg, d)) = violation {
            let prop = if mode_crash { "C18" } else { "C19" };
            rep.violation(prop, &sg, json!({"detail": d, "ops": ops_done}), json!({"seed": s, "mode": if mode_crash {"crash"} else {"equiv"}}));
        }
    }
    rep
}
