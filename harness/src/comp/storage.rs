//! C20: File and RocksDB log stores vs a reference ordered map, live and after reopen, and
//! against each other. Two generators: `legal` (what BufferedRaftLog's IO thread produces:
//! ascending appends, truncate/replace then append, purge of a prefix) and `arbitrary`
//! (out-of-order and re-written indexes, as the property demands).

use std::collections::BTreeMap;
use std::path::Path;
use std::sync::Arc;

use bytes::Bytes;
use d_engine_core::LogStore;
use d_engine_core::StorageEngine;
use d_engine_proto::common::Entry;
use d_engine_proto::common::EntryPayload;
use d_engine_proto::common::LogId;
use d_engine_proto::common::entry_payload::Payload;
use d_engine_server::FileStorageEngine;
use d_engine_server::RocksDBStorageEngine;
use serde_json::Value;
use serde_json::json;

use crate::util::Args;
use crate::util::Rng;
use crate::util::ShardReport;
use crate::util::fnv64;

fn mk(index: u64, term: u64, uid: u64) -> Entry {
    Entry {
        index,
        term,
        payload: Some(EntryPayload { payload: Some(Payload::Command(Bytes::from(format!("p{uid}").into_bytes()))) }),
    }
}

fn sig(e: &Entry) -> (u64, u64, u64) {
    let h = match e.payload.as_ref().and_then(|p| p.payload.as_ref()) {
        Some(Payload::Command(b)) => fnv64(b),
        _ => 0,
    };
    (e.index, e.term, h)
}

#[derive(Clone, Debug)]
enum Op {
    Persist(Vec<Entry>),
    Truncate(u64),
    Replace(u64, Vec<Entry>),
    Purge(u64, u64),
    Reset,
    Flush,
    Reopen,
}

fn show(op: &Op) -> Value {
    let es = |v: &Vec<Entry>| v.iter().map(|e| json!([e.index, e.term])).collect::<Vec<_>>();
    match op {
        Op::Persist(v) => json!({"persist": es(v)}),
        Op::Truncate(f) => json!({"truncate_from": f}),
        Op::Replace(f, v) => json!({"replace_from": f, "entries": es(v)}),
        Op::Purge(i, t) => json!({"purge": [i, t]}),
        Op::Reset => json!("reset"),
        Op::Flush => json!("flush"),
        Op::Reopen => json!("reopen"),
    }
}

#[derive(Default, Clone)]
struct RefStore {
    m: BTreeMap<u64, Entry>,
    boundary: Option<LogId>,
}

impl RefStore {
    fn apply(&mut self, op: &Op) {
        match op {
            Op::Persist(v) => {
                for e in v {
                    self.m.insert(e.index, e.clone());
                }
            }
            Op::Truncate(f) => {
                self.m.split_off(f);
            }
            Op::Replace(f, v) => {
                self.m.split_off(f);
                for e in v {
                    self.m.insert(e.index, e.clone());
                }
            }
            Op::Purge(i, t) => {
                self.m = self.m.split_off(&(i + 1));
                self.boundary = Some(LogId { index: *i, term: *t });
            }
            Op::Reset => self.m.clear(),
            Op::Flush | Op::Reopen => {}
        }
    }
    fn last(&self) -> u64 {
        self.m.keys().next_back().cloned().unwrap_or(0)
    }
}

enum Eng {
    File(Option<Arc<FileStorageEngine>>),
    Rocks(Option<Arc<RocksDBStorageEngine>>),
}

impl Eng {
    fn name(&self) -> &'static str {
        match self {
            Eng::File(_) => "file",
            Eng::Rocks(_) => "rocksdb",
        }
    }
    fn open(&mut self, dir: &Path) {
        match self {
            Eng::File(s) => *s = Some(Arc::new(FileStorageEngine::new(dir.join("file")).expect("open file engine"))),
            Eng::Rocks(s) => *s = Some(Arc::new(RocksDBStorageEngine::new(dir.join("rocks")).expect("open rocks engine"))),
        }
    }
    fn close(&mut self) {
        match self {
            Eng::File(s) => *s = None,
            Eng::Rocks(s) => *s = None,
        }
    }
    async fn apply(&mut self, op: &Op, dir: &Path) -> Result<(), String> {
        if let Op::Reopen = op {
            self.close();
            self.open(dir);
            return Ok(());
        }
        macro_rules! doit {
            ($ls:expr) => {{
                let ls = $ls;
                let r = match op {
                    Op::Persist(v) => ls.persist_entries(v.clone()).await,
                    Op::Truncate(f) => ls.truncate(*f).await,
                    Op::Replace(f, v) => ls.replace_range(*f, v.clone()).await,
                    Op::Purge(i, t) => ls.purge(LogId { index: *i, term: *t }).await,
                    Op::Reset => ls.reset().await,
                    Op::Flush => ls.flush(),
                    Op::Reopen => Ok(()),
                };
                r.map_err(|e| format!("{e:?}"))
            }};
        }
        match self {
            Eng::File(Some(e)) => doit!(e.log_store()),
            Eng::Rocks(Some(e)) => doit!(e.log_store()),
            _ => Err("engine closed".into()),
        }
    }
    async fn observe(&self, hi: u64) -> (Vec<(u64, u64, u64)>, u64, Option<(u64, u64)>, Vec<Option<(u64, u64, u64)>>) {
        macro_rules! obs {
            ($ls:expr) => {{
                let ls = $ls;
                let all: Vec<(u64, u64, u64)> = ls.get_entries(0..=hi).unwrap_or_default().iter().map(sig).collect();
                let mut singles = Vec::new();
                for i in 0..=hi.min(40) {
                    singles.push(ls.entry(i).await.ok().flatten().map(|e| sig(&e)));
                }
                let b = ls.load_purge_boundary().ok().flatten().map(|l| (l.index, l.term));
                (all, ls.last_index(), b, singles)
            }};
        }
        match self {
            Eng::File(Some(e)) => obs!(e.log_store()),
            Eng::Rocks(Some(e)) => obs!(e.log_store()),
            _ => (vec![], 0, None, vec![]),
        }
    }
}

fn gen_op(r: &mut Rng, m: &RefStore, arbitrary: bool, uid: &mut u64, term: &mut u64) -> Op {
    let last = m.last();
    let floor = m.boundary.map(|b| b.index).unwrap_or(0);
    let x = r.below(100);
    let mut fresh = |idx: u64, term: u64, uid: &mut u64| {
        *uid += 1;
        mk(idx, term, *uid)
    };
    if x < 40 {
        let n = r.range(1, 4);
        let mut v = Vec::new();
        if arbitrary && r.chance(1, 3) {
            // re-written / out-of-order indexes
            for _ in 0..n {
                let idx = r.range(floor + 1, last.max(floor) + 3);
                v.push(fresh(idx, *term, uid));
            }
            if r.chance(1, 2) {
                v.sort_by_key(|e| e.index);
                v.dedup_by_key(|e| e.index);
            }
        } else {
            let start = last.max(floor) + 1;
            for k in 0..n {
                v.push(fresh(start + k, *term, uid));
            }
        }
        return Op::Persist(v);
    }
    if x < 50 {
        *term += 1;
        return Op::Flush;
    }
    if x < 60 && last > floor {
        return Op::Truncate(r.range(floor + 1, last + if arbitrary { 2 } else { 0 }));
    }
    if x < 75 && last > floor {
        let f = r.range(floor + 1, last + if arbitrary { 2 } else { 1 });
        *term += 1;
        let n = r.range(0, 3);
        let v = (0..n).map(|k| fresh(f + k, *term, uid)).collect();
        return Op::Replace(f, v);
    }
    if x < 83 && last > floor {
        let c = r.range(floor + 1, last);
        let t = m.m.get(&c).map(|e| e.term).unwrap_or(1);
        return Op::Purge(c, t);
    }
    if x < 86 {
        return Op::Reset;
    }
    if x < 94 {
        return Op::Reopen;
    }
    Op::Flush
}

pub fn run(args: &Args, scratch: &Path) -> ShardReport {
    let mut rep = ShardReport::new("storage");
    let seed = args.u64("seed", 1);
    let shard = args.u64("shard", 0);
    let runs = args.u64("runs", 100);
    let rt = super::rt();
    let mut seeder = Rng::new(seed.wrapping_mul(48271) ^ shard.wrapping_mul(131));
    let budget_s = args.u64("budget_s", 600);
    let t0 = std::time::Instant::now();
    for run_no in 0..runs {
        if t0.elapsed().as_secs() >= budget_s {
            rep.notes.push(format!("time budget reached after {run_no} runs"));
            break;
        }
        let s = seeder.next();
        let mut r = Rng::new(s);
        let arbitrary = r.chance(1, 2);
        let mode = if arbitrary { "arbitrary" } else { "legal" };
        let dir = scratch.join(format!("st{run_no}"));
        let _ = std::fs::remove_dir_all(&dir);
        std::fs::create_dir_all(&dir).unwrap();
        let mut engines = vec![Eng::File(None), Eng::Rocks(None)];
        for e in engines.iter_mut() {
            e.open(&dir);
        }
        let mut model = RefStore::default();
        let mut ops: Vec<Value> = Vec::new();
        let mut kinds: Vec<u8> = Vec::new();
        let n_ops = r.range(4, 25);
        let (mut uid, mut term) = (0u64, 1u64);
        let mut found: Vec<(String, Value)> = Vec::new();
        let mut boundary_comparable = true;
        let mut rewrote = false;
        rt.block_on(async {
            for _ in 0..n_ops {
                let op = gen_op(&mut r, &model, arbitrary, &mut uid, &mut term);
                ops.push(show(&op));
                kinds.push(match &op {
                    Op::Persist(_) => 1,
                    Op::Truncate(_) => 2,
                    Op::Replace(..) => 3,
                    Op::Purge(..) => 4,
                    Op::Reset => 5,
                    Op::Flush => 6,
                    Op::Reopen => 7,
                });
                if let Op::Persist(v) = &op {
                    let sorted = v.windows(2).all(|w| w[0].index < w[1].index);
                    if !sorted || v.first().is_some_and(|e| e.index <= model.last()) {
                        rewrote = true;
                    }
                }
                model.apply(&op);
                if matches!(op, Op::Reset) {
                    boundary_comparable = false;
                }
                if matches!(op, Op::Purge(..)) {
                    boundary_comparable = true;
                }
                let hi = model.last() + 6;
                let exp_all: Vec<(u64, u64, u64)> = model.m.values().map(sig).collect();
                let mut seen: Vec<(&'static str, Vec<(u64, u64, u64)>, u64, Option<(u64, u64)>)> = Vec::new();
                for e in engines.iter_mut() {
                    if let Err(err) = e.apply(&op, &dir).await {
                        found.push((format!("{}-op-error[{mode}]", e.name()), json!({"err": err})));
                        continue;
                    }
                    let (all, last, b, singles) = e.observe(hi).await;
                    let after = if matches!(op, Op::Reopen) { "after-reopen" } else { "live" };
                    let cause: String = if rewrote { "after-rewritten-or-unordered-persist".into() } else { ["?", "after-persist", "after-truncate", "after-replace_range", "after-purge", "after-reset", "after-flush", "after-reopen"][kinds.last().cloned().unwrap_or(0) as usize].to_string() };
                    if all != exp_all {
                        found.push((format!("{}-entries-differ-{after}[{mode}]:{cause}", e.name()), json!({"got": all.iter().map(|x| json!([x.0, x.1])).collect::<Vec<_>>(), "expected": exp_all.iter().map(|x| json!([x.0, x.1])).collect::<Vec<_>>()})));
                    }
                    for (i, sg) in singles.iter().enumerate() {
                        let ex = model.m.get(&(i as u64)).map(sig);
                        if *sg != ex {
                            found.push((format!("{}-entry-lookup-differs-{after}[{mode}]:{cause}", e.name()), json!({"index": i, "got": sg.map(|x| x.1), "expected": ex.map(|x| x.1)})));
                            break;
                        }
                    }
                    // where the contract is silent: a log emptied by purge may report the purge
                    // boundary as its last index (the entries are compacted, not gone) or 0
                    let emptied_by_purge = model.m.is_empty() && model.boundary.is_some_and(|b| b.index == last);
                    if last != model.last() && !emptied_by_purge {
                        let dir = if last > model.last() { "too-high" } else { "too-low" };
                        let c2 = if model.m.is_empty() && last > 0 { "stale-after-log-emptied".to_string() } else if rewrote { format!("{dir}:after-rewritten-or-unordered-persist") } else { dir.to_string() };
                        found.push((format!("{}-last_index-differs-{after}[{mode}]:{c2}", e.name()), json!({"got": last, "expected": model.last()})));
                    }
                    let eb = model.boundary.map(|l| (l.index, l.term));
                    if boundary_comparable && b != eb {
                        let c3 = if b.is_none() { "boundary-not-recorded" } else { "boundary-value" };
                        found.push((format!("{}-purge-boundary-differs-{after}[{mode}]:{c3}", e.name()), json!({"got": b, "expected": eb})));
                    }
                    seen.push((e.name(), all, last, b));
                }
                if !found.is_empty() {
                    break;
                }
            }
            for e in engines.iter_mut() {
                e.close();
            }
        });
        let nontrivial = kinds.contains(&7) && (kinds.contains(&2) || kinds.contains(&3) || kinds.contains(&4));
        rep.eval(nontrivial, fnv64(&kinds) ^ arbitrary as u64);
        rep.count("ops", ops.len() as u64);
        rep.count(if arbitrary { "runs_arbitrary" } else { "runs_legal" }, 1);
        if rep.samples.len() < 3 && nontrivial {
            rep.sample(json!({"mode": mode, "ops": ops}));
        }
        for (sg, d) in found {
            // Sequences with out-of-order / re-written indexes are reported per (engine, query)
            // only: the detailed cause varies from sequence to sequence and the signature must
            // name the same defect at every seed. Legal sequences keep the detailed signature.
            let sg = if arbitrary {
                let head = sg.split("-differ").next().unwrap_or(&sg).to_string();
                format!("{head}-differs[arbitrary]")
            } else {
                sg
            };
            // what a legal history of persist / replace / truncate / purge / flush leaves on disk
            // is also C18's subject (the log recovers what it reported as durable): a reopen is
            // the gentlest crash
            if !arbitrary && sg.contains("after-reopen") && (sg.contains("entries-differ") || sg.contains("entry-lookup") || sg.contains("last_index")) {
                rep.violation("C18", &format!("log-store:{sg}"), json!({"detail": d, "ops": ops}), json!({"seed": s, "mode": mode}));
            }
            rep.violation("C20", &sg, json!({"detail": d, "ops": ops}), json!({"seed": s, "mode": mode}));
        }
        let _ = std::fs::remove_dir_all(&dir);
    }
    rep
}
