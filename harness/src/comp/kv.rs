//! C22: put/delete/CAS semantics on both engines, all chunkings, reads via get / get_multi /
//! scan_prefix, against the reference KV model.

use std::path::Path;
use std::sync::Arc;

use bytes::Bytes;
use d_engine_core::ApplyEntry;
use d_engine_core::Command;
use d_engine_core::StateMachine;
use serde_json::Value;
use serde_json::json;

use super::open_file_sm;
use super::open_rocks_sm;
use super::rt;
use crate::model::KvRef;
use crate::model::show_cmd;
use crate::util::Args;
use crate::util::Rng;
use crate::util::ShardReport;
use crate::util::fnv64;
use crate::util::show_bytes;

const KEYS: [&[u8]; 3] = [b"a", b"b", b"c"];
const VALS: [&[u8]; 3] = [b"x", b"y", b""];

/// abstract op over the small alphabet
#[derive(Clone, Debug, PartialEq)]
pub enum Op {
    Put(usize, usize),
    Del(usize),
    /// expected: 0 = None, 1.. = Some(VALS[i-1])
    Cas(usize, usize, usize),
}

pub fn all_ops() -> Vec<Op> {
    let mut v = Vec::new();
    for k in 0..KEYS.len() {
        for x in 0..VALS.len() {
            v.push(Op::Put(k, x));
        }
        v.push(Op::Del(k));
        for e in 0..=VALS.len() {
            for x in 0..VALS.len() {
                v.push(Op::Cas(k, e, x));
            }
        }
    }
    v
}

fn nskey(ns: &str, k: usize) -> Bytes {
    let mut b = ns.as_bytes().to_vec();
    b.extend_from_slice(KEYS[k]);
    Bytes::from(b)
}

pub fn to_cmd(ns: &str, op: &Op) -> Command {
    match op {
        Op::Put(k, v) => Command::Insert { key: nskey(ns, *k), value: Bytes::from_static(VALS[*v]), ttl_secs: None },
        Op::Del(k) => Command::Delete { key: nskey(ns, *k) },
        Op::Cas(k, e, v) => Command::CompareAndSwap {
            key: nskey(ns, *k),
            expected: if *e == 0 { None } else { Some(Bytes::from_static(VALS[*e - 1])) },
            value: Bytes::from_static(VALS[*v]),
        },
    }
}

struct Engines {
    sms: Vec<(&'static str, Arc<dyn StateMachine>)>,
    next_index: Vec<u64>,
}

/// Apply `ops` under namespace `ns` split into chunks at `cuts` (bitmask over gaps) on one engine;
/// compare flags and final content with the reference. Returns a mismatch description.
async fn run_one(
    eng: &mut Engines,
    e: usize,
    ns: &str,
    ops: &[Op],
    cuts: u32,
) -> Option<Value> {
    let (name, sm) = (eng.sms[e].0, eng.sms[e].1.clone());
    let mut model = KvRef::default();
    let mut entries: Vec<ApplyEntry> = Vec::new();
    let mut expect_flags = Vec::new();
    for op in ops {
        let cmd = to_cmd(ns, op);
        expect_flags.push(model.apply(&cmd));
        let idx = eng.next_index[e];
        eng.next_index[e] += 1;
        entries.push(ApplyEntry { index: idx, term: 1, command: cmd });
    }
    // split
    let mut flags = Vec::new();
    let mut start = 0;
    for i in 0..entries.len() {
        let last = i + 1 == entries.len();
        if last || (cuts >> i) & 1 == 1 {
            let chunk = &entries[start..=i];
            match sm.apply_chunk(chunk).await {
                Ok(rs) => {
                    if rs.len() != chunk.len() {
                        return Some(json!({"engine": name, "what": "result-count-mismatch", "chunk": chunk.len(), "results": rs.len()}));
                    }
                    for (r, en) in rs.iter().zip(chunk) {
                        if r.index != en.index {
                            return Some(json!({"engine": name, "what": "result-index-mismatch"}));
                        }
                        flags.push(r.succeeded);
                    }
                }
                Err(err) => return Some(json!({"engine": name, "what": "apply-error", "err": format!("{err:?}")})),
            }
            start = i + 1;
        }
    }
    if flags != expect_flags {
        return Some(json!({"engine": name, "what": "success-flags-differ", "got": flags, "expected": expect_flags}));
    }
    // content via get, get_multi, scan_prefix
    let keys: Vec<Bytes> = (0..KEYS.len()).map(|k| nskey(ns, k)).collect();
    let mut got_get = Vec::new();
    for k in &keys {
        got_get.push(sm.get(k).ok().flatten().map(|b| b.to_vec()));
    }
    let expected: Vec<Option<Vec<u8>>> = keys.iter().map(|k| model.get(k).cloned()).collect();
    if got_get != expected {
        return Some(json!({"engine": name, "what": "get-differs", "got": fmt(&got_get), "expected": fmt(&expected)}));
    }
    // get_multi incl. a duplicate and a missing key
    let mut mk = keys.clone();
    mk.push(keys[0].clone());
    mk.push(Bytes::from(format!("{ns}zz-missing")));
    match sm.get_multi(&mk) {
        Ok(vals) => {
            let got: Vec<Option<Vec<u8>>> = vals.into_iter().map(|v| v.map(|b| b.to_vec())).collect();
            let mut exp = expected.clone();
            exp.push(expected[0].clone());
            exp.push(None);
            if got != exp {
                return Some(json!({"engine": name, "what": "get_multi-differs", "got": fmt(&got), "expected": fmt(&exp)}));
            }
        }
        Err(err) => return Some(json!({"engine": name, "what": "get_multi-error", "err": format!("{err:?}")})),
    }
    match sm.scan_prefix(ns.as_bytes()) {
        Ok(sr) => {
            let mut got: Vec<(Vec<u8>, Vec<u8>)> = sr.entries.into_iter().map(|(k, v)| (k.to_vec(), v.to_vec())).collect();
            got.sort();
            let exp = model.scan_prefix(ns.as_bytes());
            if got != exp {
                return Some(json!({"engine": name, "what": "scan_prefix-differs",
                    "got": got.iter().map(|(k, v)| json!([show_bytes(k), show_bytes(v)])).collect::<Vec<_>>(),
                    "expected": exp.iter().map(|(k, v)| json!([show_bytes(k), show_bytes(v)])).collect::<Vec<_>>()}));
            }
        }
        Err(err) => return Some(json!({"engine": name, "what": "scan-error", "err": format!("{err:?}")})),
    }
    None
}

fn fmt(v: &[Option<Vec<u8>>]) -> Vec<Option<String>> {
    v.iter().map(|x| x.as_ref().map(|b| show_bytes(b))).collect()
}

pub fn run(args: &Args, scratch: &Path) -> ShardReport {
    let mut rep = ShardReport::new("kv");
    let seed = args.u64("seed", 1);
    let shard = args.u64("shard", 0);
    let shards = args.u64("shards", 16).max(1);
    let runs = args.u64("runs", 2000);
    let exhaustive_len = args.u64("exhaustive_len", 2) as usize;
    let ops = all_ops();
    let rt = rt();
    rt.block_on(async {
        let mut eng = Engines {
            sms: vec![
                ("file", open_file_sm(&scratch.join("file_sm")).await),
                ("rocksdb", open_rocks_sm(&scratch.join("rocks_sm")).await),
            ],
            next_index: vec![1, 1],
        };
        let mut seq_no: u64 = 0;
        let mut do_seq = async |eng: &mut Engines, rep: &mut ShardReport, seq: &[Op], all_cuts: bool, r: &mut Rng| {
            let n = seq.len();
            let cut_space = 1u32 << (n.saturating_sub(1));
            let cuts: Vec<u32> = if all_cuts { (0..cut_space).collect() } else { vec![0, r.below(cut_space as u64) as u32] };
            for c in cuts {
                for e in 0..eng.sms.len() {
                    seq_no += 1;
                    let ns = format!("s{shard}_{seq_no}/");
                    let bad = run_one(eng, e, &ns, seq, c).await;
                    let distinct = fnv64(format!("{seq:?}").as_bytes());
                    let nontrivial = seq.iter().any(|o| matches!(o, Op::Cas(..)));
                    rep.eval(nontrivial, distinct);
                    if let Some(b) = bad {
                        let what = b["what"].as_str().unwrap_or("mismatch").to_string();
                        let eng_name = b["engine"].as_str().unwrap_or("?").to_string();
                        let sc = json!({"ops": seq.iter().map(|o| show_cmd(&to_cmd("", o))).collect::<Vec<_>>(), "cuts_bitmask": c, "engine": eng_name});
                        rep.violation("C22", &format!("{eng_name}-{what}"), b, sc);
                    }
                }
            }
        };
        let mut r = Rng::new(seed.wrapping_mul(31337) ^ shard);
        // exhaustive part: all sequences up to `exhaustive_len`, all chunkings, partitioned by shard
        let mut counter = 0u64;
        let mut idx = vec![0usize; 0];
        for len in 1..=exhaustive_len {
            idx = vec![0; len];
            loop {
                if counter % shards == shard {
                    let seq: Vec<Op> = idx.iter().map(|i| ops[*i].clone()).collect();
                    do_seq(&mut eng, &mut rep, &seq, true, &mut r).await;
                }
                counter += 1;
                // increment
                let mut p = 0;
                loop {
                    idx[p] += 1;
                    if idx[p] < ops.len() {
                        break;
                    }
                    idx[p] = 0;
                    p += 1;
                    if p == len {
                        break;
                    }
                }
                if p == len {
                    break;
                }
            }
        }
        let _ = idx;
        rep.count("exhaustive_sequences_total", counter);
        // sampled longer sequences biased toward one key (CAS chains)
        for _ in 0..runs {
            let len = r.range(3, 8) as usize;
            let hot = r.below(KEYS.len() as u64) as usize;
            let seq: Vec<Op> = (0..len)
                .map(|_| {
                    let mut o = r.pick(&ops).clone();
                    if r.chance(2, 3) {
                        o = match o {
                            Op::Put(_, v) => Op::Put(hot, v),
                            Op::Del(_) => Op::Del(hot),
                            Op::Cas(_, e, v) => Op::Cas(hot, e, v),
                        };
                    }
                    o
                })
                .collect();
            let all = len <= 6 && r.chance(1, 8);
            do_seq(&mut eng, &mut rep, &seq, all, &mut r).await;
            if rep.samples.len() < 3 {
                rep.sample(json!({"ops": seq.iter().map(|o| show_cmd(&to_cmd("", o))).collect::<Vec<_>>()}));
            }
        }
        rep.exhaustive = false;
        rep.notes.push(format!("exhaustive over all {} ops^len for len<= {exhaustive_len} with all chunkings; sampled beyond", ops.len()));
        for (_, sm) in &eng.sms {
            let _ = sm.stop();
            sm.close_storage();
        }
    });
    rep
}
