//! Worker binary. `dverif <check> key=value ...` runs one shard of a check and writes a JSON
//! shard report to `out=<file>` (or stdout).

use std::path::PathBuf;

use dverif::util::Args;

fn main() {
    let argv: Vec<String> = std::env::args().collect();
    if argv.len() < 2 {
        eprintln!("usage: dverif <check> [key=value ...]");
        std::process::exit(2);
    }
    let check = argv[1].clone();
    let args = Args::parse(&argv[2..]);
    if check == "metacrash-child" {
        dverif::comp::metacrash::child(&args);
    }
    if check == "smcrash-child" {
        dverif::comp::smcrash::child(&args);
    }
    let scratch = PathBuf::from(args.str(
        "scratch",
        &format!("/tmp/dverif-scratch-{}", std::process::id()),
    ));
    let _ = std::fs::create_dir_all(&scratch);
    // d-engine prints role transitions etc. on stdout; keep our report separate
    let report = dverif::checks::run(&check, &args, &scratch);
    let _ = std::fs::remove_dir_all(&scratch);
    let js = serde_json::to_string(&report.to_json()).unwrap();
    match args.kv.get("out") {
        Some(p) => std::fs::write(p, js).expect("write report"),
        None => println!("REPORT {js}"),
    }
}
