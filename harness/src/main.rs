use dverif::sim::cluster::*;
use dverif::sim::record::*;

fn main() {
    let args: Vec<String> = std::env::args().collect();
    let seed: u64 = args.get(1).and_then(|s| s.parse().ok()).unwrap_or(1);
    let scratch = std::path::PathBuf::from(format!("/tmp/dverif-{}", std::process::id()));
    let _ = std::fs::remove_dir_all(&scratch);
    std::fs::create_dir_all(&scratch).unwrap();
    let rt = tokio::runtime::Builder::new_current_thread().enable_all().start_paused(true).build().unwrap();
    let wall = std::time::Instant::now();
    rt.block_on(async {
        let mut c = Cluster::<FileKind>::new(Params::default(), seed, &scratch);
        c.bootstrap().await.unwrap();
        let l = c.wait_leader(5000).await;
        println!("leader {:?} at {}", l, c.now());
        let cl = c.client();
        if let Some(l) = l {
            for i in 0..20u32 {
                let (_, r) = cl.write(1, l, ClientOp::Put { key: b"k".to_vec(), value: format!("v{i}").into_bytes(), ttl: None }, 2000).await;
                if i < 3 { println!("{:?}", r); }
            }
            let (_, r) = cl.read(1, l, vec![b"k".to_vec()], Some("linearizable"), "cmd", 2000).await;
            println!("read {:?}", r);
        }
        c.sleep(500).await;
        println!("events {} virtual {}ms", c.rec.len(), c.now());
        for r in c.rec.snapshot().iter().take(60) { println!("{}", ev_json(r)); }
        c.shutdown_all().await;
    });
    Cluster::<FileKind>::uninstall_hooks();
    println!("wall {:?}", wall.elapsed());
    let _ = std::fs::remove_dir_all(&scratch);
}
