#!/usr/bin/env python3
"""mutprompt.py <PROPERTY_ID> <worktree>  -- print the prompt given to a fresh sub-agent that seeds a defect for one property.
The agent gets ONLY the property text and its own worktree (nothing from /verif)."""
import json, sys
props = {json.loads(l)['id']: json.loads(l) for l in open('/verif/properties.jsonl')}
pid, wt = sys.argv[1], sys.argv[2]
p = props[pid]
print(open('/verif/tools/mutprompt.tmpl').read().format(pid=pid, wt=wt, title=p['title'], statement=p['statement'],
      quant=p['quantifier']['text'], why=p['why_tests_cant'], anchors=json.dumps(p['anchors'])))
