#!/usr/bin/env python3
"""shards.py <dverif binary> <family> <props> <seed> <runs per shard>: run 16 sim shards with the given
binary (e.g. a mutated scratch build) and print violation signatures with counts (development aid)."""
import json, os, subprocess, sys, tempfile, shutil, collections
binp, family, props, seed, runs = sys.argv[1:6]
out = tempfile.mkdtemp(prefix="shards-", dir="/verif/work")
ps = []
for i in range(16):
    ps.append(subprocess.Popen([binp, "sim", f"family={family}", f"seed={seed}", f"runs={runs}", f"shard={i}",
        f"props={props}", f"out={out}/s{i}.json", f"scratch={out}/scr{i}", "budget_s=400"],
        stdout=subprocess.DEVNULL, stderr=subprocess.DEVNULL))
for p in ps: p.wait()
c = collections.Counter(); ev = 0; first = {}; other = collections.Counter()
for i in range(16):
    try: r = json.load(open(f"{out}/s{i}.json"))
    except Exception as e: print("shard", i, "no report", e); continue
    ev += r["evaluations"]
    for v in r["violations"]:
        k = (v["property"], v["signature"]); c[k] += 1
        first.setdefault(k, (v["scenario"].get("seed"), json.dumps(v["detail"].get("detail"))[:300]))
    for k, n in r["counters"].items():
        if k.startswith("other_findings."): other[k] += n
print("evaluations", ev)
for k, n in sorted(c.items()): print(n, k, first[k])
print("other:", dict(other))
if len(sys.argv) > 6 and sys.argv[6] == "keep": print("kept", out)
else: shutil.rmtree(out, ignore_errors=True)
