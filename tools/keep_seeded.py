#!/usr/bin/env python3
"""keep_seeded.py <ID> <caught_by comma list or '-'> <result text> [name]  -- copy a confirmed seeded defect from /tmp/mut/out/<ID> to /verif/seeded/<name or ID>/"""
import json, os, shutil, sys, re
pid, caught, result = sys.argv[1], sys.argv[2], sys.argv[3]
name = sys.argv[4] if len(sys.argv) > 4 else pid
src = f"/tmp/mut/out/{pid}"
dst = f"/verif/seeded/{name}"
os.makedirs(dst, exist_ok=True)
for f in ("patch.diff", "demo.diff"):
    shutil.copy(f"{src}/{f}", f"{dst}/{f}")
m = json.load(open(f"{src}/meta.json"))
conf = json.load(open(f"{src}/confirm.json"))
wt = re.compile(r"/tmp/mut/wt\d")
out = {
    "property": m.get("property", pid),
    "origin": "fresh sub-agent given only the property text and a scratch worktree (tools/mutprompt.py); nothing from /verif",
    "summary": m["summary"],
    "needs_to_manifest": m["needs"],
    "demonstration": {"file": "demo.diff", "cmd": wt.sub("<worktree>", m["demo_cmd"]),
                      "fails_with_patch": conf["demo_with_patch_rc"] != 0, "passes_without_patch": conf["demo_without_patch_rc"] == 0},
    "existing_suite_with_patch": {"summary": conf.get("suite_summary"), "first_pass_failures": conf.get("suite_failed_first_pass"),
                                  "still_failing_when_rerun_alone": conf.get("suite_broken_after_rerun"),
                                  "note": "confirmed in the scratch worktree with tools/confirm_mut.py; every non-demo failure other than the two root-permission tests passed when re-run alone"},
    "verification_runs": {"checks_run": [f"tools/mutrun.sh {name}/patch.diff <checks> (quick tier, seed 1): patch applied to /repo, checks run, git checkout -- ."],
                          "result": result, "caught_by": [] if caught == "-" else caught.split(",")},
}
json.dump(out, open(f"{dst}/meta.json", "w"), indent=1)
print("kept", dst)
