#!/usr/bin/env python3
"""Print the recorded trace of a witness (work/replay/<dir>/witness.json), filtered.

usage: trace.py <witness.json> [--kinds k1,k2,...] [--node N] [--from T] [--to T] [--skip k1,k2]
kind = the discriminating key of the event json (apply, commit, ae, ae_reply, role, ...)
"""
import json
import sys

KINDS = ["role", "term_change", "vote_set", "vote_reset", "commit", "read_served", "leader_notify",
         "vote_req", "vote_reply", "vote_outcome", "ae", "ae_deliver", "ae_reply", "ae_reply_deliver",
         "snapshot_push", "join_req", "join_reply", "start", "crash", "stop", "node_exit", "fault",
         "phase", "apply", "snapshot_install", "snapshot_generate", "purge", "invoke", "return",
         "membership"]


def kind(e):
    for k in KINDS:
        if k in e:
            return k
    return "?"


def main():
    a = sys.argv[1:]
    w = json.load(open(a[0]))
    kinds = skip = None
    node = None
    t0, t1 = 0, 1 << 60
    i = 1
    while i < len(a):
        if a[i] == "--kinds":
            kinds = set(a[i + 1].split(","))
        elif a[i] == "--skip":
            skip = set(a[i + 1].split(","))
        elif a[i] == "--node":
            node = int(a[i + 1])
        elif a[i] == "--from":
            t0 = int(a[i + 1])
        elif a[i] == "--to":
            t1 = int(a[i + 1])
        i += 2
    d = w.get("detail", {})
    print("scenario:", json.dumps(w.get("scenario")))
    print("finding t=", d.get("t"), json.dumps(d.get("detail")))
    for r in d.get("trace", []):
        e = r["e"]
        k = kind(e)
        if kinds and k not in kinds:
            continue
        if skip and k in skip:
            continue
        if not (t0 <= r["t"] <= t1):
            continue
        if node is not None:
            vals = [e.get(k)] if not isinstance(e.get(k), list) else e.get(k)
            others = [e.get(x) for x in ("node", "from", "to", "follower", "leader")]
            if node not in vals and node not in others:
                continue
        print(r["t"], json.dumps(e)[:300])


if __name__ == "__main__":
    main()
