#!/bin/bash
# mutrun.sh <patch.diff> <check> [<check> ...]  -- apply a seeded defect to /repo, run checks (quick), undo.
# Never leaves /repo modified; refuses to run on a dirty tree.
set -u
patch=$1; shift
cd /repo || exit 2
if [ -n "$(git status --porcelain --untracked-files=no)" ]; then echo "/repo is dirty, refusing"; exit 2; fi
git apply "$patch" || { echo "patch does not apply"; exit 2; }
trap 'git -C /repo checkout -- . ; echo "[mutrun] /repo restored"' EXIT
cd /verif
for c in "$@"; do
  echo "=== $c with $(basename $(dirname $patch))/$(basename $patch)"
  VERIF_EVID_DIR=/verif/work/mut_evidence ./check "$c" --tier quick 2>&1 | grep -E "VIOLATION|KNOWN|verdict|INCONCLUSIVE|signature" | cut -c1-400
done
