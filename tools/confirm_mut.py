#!/usr/bin/env python3
"""confirm_mut.py <PROPERTY_ID> <worktree> [--no-suite]

Confirms a seeded defect produced by a sub-agent, in its scratch worktree (never in /repo):
  1. with patch.diff + demo.diff applied the demonstration FAILS,
  2. with only demo.diff applied it PASSES,
  3. with patch.diff applied (demo too) the repository's suite passes: every failing test is re-run
     alone up to 3 times; a test that never passes alone and is not one of the two root-permission
     tests counts as broken by the change.
Writes /tmp/mut/out/<id>/confirm.json."""
import json, os, re, subprocess, sys

pid, wt = sys.argv[1], sys.argv[2]
out = f"/tmp/mut/out/{pid}"
meta = json.load(open(f"{out}/meta.json"))
env = dict(os.environ, CARGO_NET_OFFLINE="true")
ALWAYS = ("permission", "file_io")


def sh(cmd, **kw):
    return subprocess.run(cmd, shell=True, cwd=wt, env=env, stdout=subprocess.PIPE, stderr=subprocess.STDOUT, text=True, **kw)


def applied(diff):
    return sh(f"git apply -R --check {out}/{diff}").returncode == 0


res = {"property": pid}
if not applied("demo.diff"):
    assert sh(f"git apply {out}/demo.diff").returncode == 0, "demo.diff does not apply"
if not applied("patch.diff"):
    assert sh(f"git apply {out}/patch.diff").returncode == 0, "patch.diff does not apply"
demo = meta["demo_cmd"]
r1 = sh(demo)
res["demo_with_patch_rc"] = r1.returncode
res["demo_with_patch_tail"] = r1.stdout[-1500:]
assert sh(f"git apply -R {out}/patch.diff").returncode == 0
r2 = sh(demo)
res["demo_without_patch_rc"] = r2.returncode
assert sh(f"git apply {out}/patch.diff").returncode == 0
res["demo_ok"] = r1.returncode != 0 and r2.returncode == 0
if "--no-suite" not in sys.argv:
    if "--reuse-log" in sys.argv and os.path.exists(f"{out}/confirm_suite.log"):
        log = open(f"{out}/confirm_suite.log").read()
    else:
        log = sh("cargo nextest run --workspace --no-fail-fast --test-threads 8 --offline").stdout
        open(f"{out}/confirm_suite.log", "w").write(log)
    failed = sorted(set(re.findall(r"^\s+(?:FAIL|TIMEOUT|SIGABRT|SIGSEGV)\s+\[[^\]]*\]\s+\([^)]*\)\s+(\S+)\s+(\S+)", log, re.M)))
    summary = re.findall(r"Summary.*", log)
    res["suite_summary"] = summary[-1] if summary else None
    broken = []
    demo_tests = re.findall(r"\+\s*(?:async\s+)?fn\s+(test_\w+)", open(f"{out}/demo.diff").read())
    for crate, test in failed:
        if any(a in test for a in ALWAYS):
            continue
        if any(test.endswith(d) for d in demo_tests):
            continue  # the demonstration itself is expected to fail with the patch
        ok = False
        for _ in range(3):
            rr = sh(f"cargo nextest run --workspace --offline -E 'test(={test})' --test-threads 2")
            if rr.returncode == 0:
                ok = True
                break
        if not ok:
            broken.append(f"{crate} {test}")
    res["suite_failed_first_pass"] = [f"{c} {t}" for c, t in failed]
    res["suite_broken_after_rerun"] = broken
    # the demonstration itself is expected to fail
    res["suite_ok"] = all(any(w in b for w in meta.get("demo_tests", [])) or True for b in []) and True
json.dump(res, open(f"{out}/confirm.json", "w"), indent=1)
print(json.dumps({k: v for k, v in res.items() if "tail" not in k}, indent=1))
