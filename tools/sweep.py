#!/usr/bin/env python3
"""sweep.py <seeds comma> <checks comma>: run quick checks and print verdict lines plus findings of
other properties seen in the same runs (development aid, not part of MANIFEST)."""
import json, os, subprocess, sys
seeds = sys.argv[1].split(","); checks = sys.argv[2].split(",")
tier = sys.argv[3] if len(sys.argv) > 3 else "quick"
root = os.path.dirname(os.path.dirname(os.path.abspath(__file__)))
for s in seeds:
    for c in checks:
        env = dict(os.environ, VERIF_SEED=s, VERIF_TIER=tier)
        p = subprocess.run(["./check", c, "--tier", tier], cwd=root, env=env, stdout=subprocess.PIPE, stderr=subprocess.STDOUT, text=True)
        lines = [l for l in p.stdout.splitlines() if l.startswith(("VIOLATION", "KNOWN-FINDING", "INCONCLUSIVE", "note:", c + ":", "  signature"))]
        print(f"== seed={s} {c} rc={p.returncode}")
        for l in lines: print("   ", l[:400])
        try:
            ev = json.load(open(os.path.join(root, "evidence", c + ".json")))
            oth = {k: v for k, v in ev["coverage"]["monitor_counters"].items() if "other_findings" in k or k.startswith("violations.")}
            if oth: print("    other:", json.dumps(oth))
        except Exception as e:
            print("    (no evidence)", e)
        sys.stdout.flush()
