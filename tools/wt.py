#!/usr/bin/env python3
"""wt.py <witness.json> [regex] [last_ms]  -- print the witness detail and the trace lines matching regex"""
import json, re, sys
w = json.load(open(sys.argv[1]))
rx = re.compile(sys.argv[2]) if len(sys.argv) > 2 else None
last = int(sys.argv[3]) if len(sys.argv) > 3 else 10**9
print("scenario:", json.dumps(w["scenario"]))
print("t:", w["detail"].get("t"), "detail:", json.dumps(w["detail"].get("detail"))[:1500])
tr = w["detail"].get("trace", [])
if tr:
    tend = w["detail"].get("t", tr[-1]["t"])
    for e in tr:
        s = json.dumps(e["e"], separators=(",", ":"))
        if e["t"] >= tend - last and (rx is None or rx.search(s)):
            print(e["t"], s[:260])
